#!/bin/sh
# builds the vx engine binary offline from /verif/engine (setup_cmd of MANIFEST.json)
set -e
export PATH=/root/go/pkg/mod/golang.org/toolchain@v0.0.1-go1.25.0.linux-amd64/bin:$PATH
export GOTOOLCHAIN=local GOFLAGS=-mod=mod GOPROXY=off
unset GOSUMDB
cd /verif/engine
mkdir -p /verif/build
go build -o /verif/build/vx ./cmd/vx

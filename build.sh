#!/bin/sh
# builds the vx engine binary offline from ./engine (setup_cmd of MANIFEST.json)
set -e
DIR=$(dirname "$(readlink -f "$0")")
export PATH=/root/go/pkg/mod/golang.org/toolchain@v0.0.1-go1.25.0.linux-amd64/bin:$PATH
export GOTOOLCHAIN=local GOFLAGS=-mod=mod GOPROXY=off
unset GOSUMDB
cd "$DIR/engine"
mkdir -p "$DIR/build"
go build -o "$DIR/build/vx" ./cmd/vx

#!/usr/bin/env python3
import json,sys,re,datetime
d=json.load(open(sys.argv[1]))
v=d['vars']
print("label:",d['label'])
groups={}
for k in sorted(v):
    m=re.match(r'(.*)\.([db])(\d+)$',k)
    if m:
        groups.setdefault(m.group(1),{})[int(m.group(3))]=int(v[k]); continue
    if '!' in k: continue
    val=v[k]
    if k.endswith('.sec'):
        try: val+= "  ("+ (datetime.datetime(1970,1,1)+datetime.timedelta(seconds=int(v[k]))).isoformat()+")"
        except Exception: pass
    print(f"  {k} = {val}")
for g,dd in sorted(groups.items()):
    s=''.join(chr(dd[i]) if 32<=dd[i]<127 else '\\x%02x'%dd[i] for i in sorted(dd))
    print(f"  {g} = \"{s}\"")

#!/bin/sh
# runs every registered check (quick by default) and prints one line per property
DIR=$(dirname "$(readlink -f "$0")")/..
DIR=$(readlink -f "$DIR")
"$DIR/build.sh" || exit 2
TIER=${1:-quick}
for id in $(python3 -c "import json;print(' '.join(c['property_id'] for c in json.load(open('$DIR/MANIFEST.json'))['checks']))"); do
  s=$(date +%s)
  VERIF_NOEVIDENCE=${VERIF_NOEVIDENCE:-} "$DIR/check" $id $TIER > /tmp/runall_$id.log 2>&1
  rc=$?
  e=$(date +%s)
  echo "$id exit=$rc $((e-s))s $(grep -c '^INCONCLUSIVE' /tmp/runall_$id.log) inconclusive $(grep -c '^VIOLATION' /tmp/runall_$id.log) violations"
done

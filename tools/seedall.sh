#!/bin/sh
# usage: tools/seedall.sh <outdir> <prop:diff:demo:name>...   (run from a /verif snapshot via vp run)
DIR=$(dirname "$(readlink -f "$0")")/..
DIR=$(readlink -f "$DIR")
"$DIR/build.sh" || exit 2
OUT=$1; shift
mkdir -p "$OUT"
for spec in "$@"; do
  p=$(echo $spec | cut -d: -f1); d=$(echo $spec | cut -d: -f2); t=$(echo $spec | cut -d: -f3); n=$(echo $spec | cut -d: -f4)
  VX_VERIF="$DIR" VX_SEEDOUT="$OUT" "$DIR/tools/seedtest.py" $p $d $t $n > "$OUT/$n.log" 2>&1
  echo "done $n"
done

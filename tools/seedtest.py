#!/usr/bin/env python3
"""seedtest.py <prop> <diff> <demo_test.go> <name> [checks...]
Confirms a seeded change in a scratch worktree (demo passes clean / fails mutated, build ok,
stable tests still pass) and runs the given property checks (default: <prop>) against it.
Writes /verif/seeded/<name>/{patch.diff,demo_test.go,meta.json}."""
import json,os,subprocess,sys,shutil,time
prop,diff,demo,name=sys.argv[1:5]
checks=sys.argv[5:] or [prop]
GO="/root/go/pkg/mod/golang.org/toolchain@v0.0.1-go1.25.0.linux-amd64/bin"
env=dict(os.environ,PATH=GO+":"+os.environ["PATH"],GOTOOLCHAIN="local",GOFLAGS="-mod=mod",GOPROXY="off")
wt=f"/tmp/sw_{name}"
def sh(cmd,cwd=None,e=env,timeout=3000):
    p=subprocess.run(cmd,shell=True,cwd=cwd,env=e,capture_output=True,text=True,timeout=timeout)
    return p.returncode,p.stdout+p.stderr
subprocess.run(f"git -C /repo worktree remove --force {wt}",shell=True,capture_output=True)
rc,out=sh(f"git -C /repo worktree add --detach {wt} HEAD")
assert rc==0,out
meta={"property":prop,"name":name,"ran":[]}
try:
    demoname="zz_seed_demo_test.go"
    shutil.copy(demo,f"{wt}/{demoname}")
    rc,out=sh("go test -vet=off -count=1 -run 'Demo|Mut' .",cwd=wt)
    meta["demo_clean_pass"]=(rc==0); meta["ran"].append("clean tree: go test -run 'Demo|Mut' . -> rc=%d"%rc)
    rc,out=sh(f"git apply {diff}",cwd=wt)
    meta["applies"]=(rc==0)
    if rc!=0:
        rc,out=sh(f"git apply --3way {diff}",cwd=wt); meta["applies_3way"]=(rc==0)
    rc,out=sh("go build ./...",cwd=wt); meta["builds"]=(rc==0)
    rc,out=sh("go test -vet=off -count=1 -run 'Demo|Mut' .",cwd=wt)
    meta["demo_mutated_fails"]=(rc!=0); meta["ran"].append("mutated: go test -run 'Demo|Mut' . -> rc=%d"%rc)
    meta["demo_failure_excerpt"]=[l for l in out.split('\n') if 'FAIL' in l or '_test.go' in l][:6]
    os.remove(f"{wt}/{demoname}")
    # stable baseline on mutated tree
    rc,out=sh("go test -mod=mod -json -vet=off -count=1 -timeout 25m ./... > /tmp/seed_base.json 2>/dev/null; true",cwd=wt)
    base=set(json.load(open('/root/.vp/BASELINE.json'))['stable_pass'])
    res={}
    for l in open('/tmp/seed_base.json'):
        try: e=json.loads(l)
        except Exception: continue
        if e.get('Test') and e.get('Action') in ('pass','fail','skip'): res[e['Package']+'::'+e['Test']]=e['Action']
    bad=[t for t in base if res.get(t)!='pass']
    meta["stable_tests_passing"]=len(base)-len(bad); meta["stable_tests_broken"]=bad[:10]
    # checks against the mutated worktree
    meta["checks"]={}
    for c in checks:
        t0=time.time()
        V=os.environ.get("VX_VERIF","/verif"); rc,out=sh(f"{V}/build/vx check -id {c} -tier quick",cwd=V,e=dict(env,VX_REPO=wt,VX_VERIF=V,VERIF_NOEVIDENCE="1"),timeout=3600)
        lines=[l for l in out.split('\n') if l.startswith(('VIOLATION','KNOWN','INCONCLUSIVE','OK')) or 'CONFIRMED' in l or 'SPURIOUS' in l]
        meta["checks"][c]={"exit":rc,"wall_s":round(time.time()-t0,1),"lines":[l[:300] for l in lines][:12]}
        meta["ran"].append(f"VX_REPO={wt} vx check -id {c} -tier quick -> exit {rc}")
finally:
    subprocess.run(f"git -C /repo worktree remove --force {wt}",shell=True,capture_output=True)
d=os.environ.get("VX_SEEDOUT","/verif/seeded")+f"/{name}"
os.makedirs(d,exist_ok=True)
shutil.copy(diff,f"{d}/patch.diff"); shutil.copy(demo,f"{d}/demo_test.go")
json.dump(meta,open(f"{d}/meta.json","w"),indent=1)
print(json.dumps(meta,indent=1))

#!/bin/sh
# runs the repository's test suite (hooks off: there are none) and lists failing tests that are in the stable baseline
cd /repo && . /w/out/goenv.sh && MF=$(gomodflag) && go test $MF -json -vet=off -count=1 -timeout 25m ./... > /tmp/baseline_run.json 2>/dev/null
python3 - <<'PY'
import json
base=set(json.load(open('/root/.vp/BASELINE.json'))['stable_pass'])
res={}
for l in open('/tmp/baseline_run.json'):
    try: e=json.loads(l)
    except Exception: continue
    if e.get('Test') and e.get('Action') in ('pass','fail','skip'):
        res[e['Package']+'::'+e['Test']]=e['Action']
bad=[t for t in base if res.get(t)!='pass']
print("stable tests:",len(base),"passing now:",len(base)-len(bad))
for t in bad[:20]: print("NOT PASSING:",t,res.get(t))
PY

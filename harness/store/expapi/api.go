package expapi

import (
	"encoding/json"
	"net/http"
	"net/url"
	"sort"

	"github.com/bartventer/httpcache/store/driver"
)

// VxC14_API: the maintenance handlers address the same keys and bytes as the store they
// are given (C14): retrieve returns exactly the stored bytes of the key in the path,
// destroy removes exactly that key, list returns exactly what Keys(prefix) returns, and
// absent keys answer 404.  The store is a map model; the routing of net/http.ServeMux
// (how a key travels in a URL path) is outside this harness.

type vxConn struct{ m map[string][]byte }

func (c *vxConn) Get(key string) ([]byte, error) {
	v, ok := c.m[key]
	if !ok {
		return nil, driver.ErrNotExist
	}
	return v, nil
}
func (c *vxConn) Set(key string, v []byte) error { c.m[key] = v; return nil }
func (c *vxConn) Delete(key string) error {
	if _, ok := c.m[key]; !ok {
		return driver.ErrNotExist
	}
	delete(c.m, key)
	return nil
}
func (c *vxConn) Keys(prefix string) ([]string, error) {
	var ks []string
	for k := range c.m {
		if len(k) >= len(prefix) && k[:len(prefix)] == prefix {
			ks = append(ks, k)
		}
	}
	sort.Strings(ks)
	return ks, nil
}

type vxOpener struct{ c driver.Conn }

func (o vxOpener) OpenConn(dsn string) (driver.Conn, error) { return o.c, nil }

type vxRec struct {
	h      http.Header
	status int
	body   []byte
	raw    [][]byte
}

func (r *vxRec) Header() http.Header { return r.h }
func (r *vxRec) WriteHeader(s int) {
	if r.status == 0 {
		r.status = s
	}
}
func (r *vxRec) Write(b []byte) (int, error) {
	if r.status == 0 {
		r.status = 200
	}
	r.raw = append(r.raw, b)
	r.body = append(r.body, b...)
	return len(b), nil
}

func vxBytesEq(a, b []byte) bool {
	if len(a) != len(b) {
		return false
	}
	r := true
	for i := range a {
		r = vxAnd(r, a[i] == b[i])
	}
	return r
}

func vxReq(method, key, rawQuery string) *http.Request {
	r := &http.Request{Method: method, URL: &url.URL{Path: "/debug/httpcache", RawQuery: rawQuery}, Header: http.Header{}}
	r.SetPathValue("key", key)
	return r
}

func VxC14_API() {
	k0 := vxStr("k0", vxChoice("k0.len", 3))
	k1 := vxStr("k1", vxChoice("k1.len", 4)) // up to 3 bytes: a complete percent-escape fits
	v0 := []byte(vxStr("v0", 2))
	v1 := []byte(vxStr("v1", 3))
	conn := &vxConn{m: map[string][]byte{}}
	conn.m[k0] = v0
	two := vxChoice("two", 2) == 1
	if two {
		vxAssume(k0 != k1)
		conn.m[k1] = v1
	}
	same01 := !two && k1 == k0 // the request addresses the only stored key
	has1 := two || same01
	svc := &storeService{co: vxOpener{conn}}
	switch vxChoice("call", 3) {
	case 0: // retrieve k1
		w := &vxRec{h: http.Header{}}
		connHandler(svc.co, retrieve).ServeHTTP(w, vxReq("GET", k1, "dsn=x"))
		if has1 {
			want := v1
			if !two {
				want = v0
			}
			vxAssert(w.status == 200, "C14/api-retrieve-status")
			vxAssert(vxBytesEq(w.body, want), "C14/api-retrieve-returned-other-bytes")
		} else {
			vxAssert(w.status == 404, "C14/api-retrieve-absent-not-404")
		}
	case 1: // destroy k1
		w := &vxRec{h: http.Header{}}
		connHandler(svc.co, destroy).ServeHTTP(w, vxReq("DELETE", k1, "dsn=x"))
		if has1 {
			vxAssert(w.status == 204, "C14/api-destroy-status")
			_, still := conn.m[k1]
			vxAssert(!still, "C14/api-destroy-left-the-key")
			if two {
				got, ok := conn.m[k0]
				vxAssert(ok && vxBytesEq(got, v0), "C14/api-destroy-removed-another-key")
			}
		} else {
			vxAssert(w.status == 404, "C14/api-destroy-absent-not-404")
			vxAssert(len(conn.m) == 1, "C14/api-destroy-removed-another-key")
		}
	case 2: // list with prefix k1
		w := &vxRec{h: http.Header{}}
		plen := len(k1)
		for i := 0; i < plen; i++ { // a prefix that needs no escaping in the query string
			c := k1[i]
			vxAssume(c >= 'a' && c <= 'z' || c >= '0' && c <= '9')
		}
		connHandler(svc.co, list).ServeHTTP(w, vxReq("GET", "", "dsn=x&prefix="+k1))
		vxAssert(w.status == 200, "C14/api-list-status")
		want, _ := conn.Keys(k1)
		var got struct {
			Keys []string `json:"keys"`
		}
		if vxIsSymbolic() {
			var m map[string][]string
			vxAssert(len(w.raw) == 1 && json.Unmarshal(w.raw[0], &m) == nil, "C14/api-list-not-one-json-document")
			got.Keys = m["keys"]
		} else {
			vxAssert(json.Unmarshal(w.body, &got) == nil, "C14/api-list-not-one-json-document")
		}
		sort.Strings(got.Keys)
		same := len(got.Keys) == len(want)
		if same {
			for i := range want {
				same = vxAnd(same, got.Keys[i] == want[i])
			}
		}
		vxAssert(same, "C14/api-list-differs-from-keys")
	}
	vxCover("C14/api")
}

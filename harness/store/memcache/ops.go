package memcache

import (
	"errors"

	"github.com/bartventer/httpcache/store/driver"
)

func vxShortKey(p string) string { return vxStr(p, vxChoice(p+".len", 3)) }

func vxBytesEq(a, b []byte) bool {
	if len(a) != len(b) {
		return false
	}
	r := true
	for i := range a {
		r = vxAnd(r, a[i] == b[i])
	}
	return r
}

// VxC14_MemOps: the memory backend answers a sequence of Set/Get/Delete calls exactly
// as a map would, and keeps its values isolated from the caller's buffers (C14).
func VxC14_MemOps() {
	c := Open()
	keys := [2]string{vxShortKey("k0"), vxShortKey("k1")}
	model := map[string][]byte{}
	n := 4
	if vxTier() == "thorough" {
		n = 5
	}
	for step := 0; step < n; step++ {
		s := string(rune('0' + step))
		k := keys[vxChoice("key"+s, 2)]
		switch vxChoice("op"+s, 3) {
		case 0:
			v := []byte(vxStr("v"+s, vxChoice("vlen"+s, 3)))
			buf := append([]byte(nil), v...)
			vxAssert(c.Set(k, buf) == nil, "C14/set-failed")
			for i := range buf {
				buf[i] = 'X'
			}
			model[k] = v
		case 1:
			got, err := c.Get(k)
			want, ok := model[k]
			if ok {
				vxAssert(err == nil, "C14/get-of-present-key-failed")
				vxAssert(err != nil || vxBytesEq(got, want), "C14/get-returned-other-bytes")
				for i := range got {
					got[i] = 'Y'
				}
			} else {
				vxAssert(err != nil && errors.Is(err, driver.ErrNotExist), "C14/absent-key-not-reported-as-not-exist")
			}
		default:
			err := c.Delete(k)
			if _, ok := model[k]; ok {
				vxAssert(err == nil, "C14/delete-of-present-key-failed")
			} else {
				vxAssert(err != nil && errors.Is(err, driver.ErrNotExist), "C14/delete-of-absent-key-not-reported")
			}
			delete(model, k)
		}
	}
	vxCover("C14/memops")
}

package fscache

import (
	"bytes"
	"net/url"
	"os"
	"path/filepath"
)

// C17 harnesses.  Under symgo AES-GCM is its contract (aead.go): Seal returns fresh,
// unconstrained bytes that carry no information about the plaintext; Open succeeds
// exactly on a (key, nonce, ciphertext) triple produced by Seal.  "No plaintext in the
// file" is therefore decided as: every file of the store is, byte for byte, a fresh
// random nonce followed by the Seal output for that nonce and the stored value - for
// every value of the random and ciphertext bytes.  Natively (replay) the real AES-GCM
// runs and the raw files are searched for the plaintext.

const vxKey16 = "MDEyMzQ1Njc4OWFiY2RlZg=="                     // 16 bytes
const vxKey24 = "MDEyMzQ1Njc4OWFiY2RlZjAxMjM0NTY3"             // 24 bytes
const vxKey32b = "QUJDREVGR0hJSktMTU5PUFFSU1RVVldYWVowMTIzNDU=" // 32 bytes, differs from vxTestKeyB64

var vxGoodKeys = []string{vxTestKeyB64, vxKey16, vxKey24, vxKey32b}

// vxOpenHow opens the store with encryption switched on in one of the documented ways.
func vxOpenHow(how int, key string) (*fsCache, error) {
	base := vxBaseDir()
	vxSetenv("FSCACHE_ENCRYPT_KEY", "")
	if (how == 1 || how == 2) && key != "" {
		// a key in the DSN is the configured key, whatever the environment holds
		other := vxKey32b
		if key == other {
			other = vxTestKeyB64
		}
		vxSetenv("FSCACHE_ENCRYPT_KEY", other)
	}
	switch how {
	case 0:
		return vxOpen(WithBaseDir(base), WithEncryption(key))
	case 1:
		return vxFromURL("fscache://" + base + "?appname=app&encrypt=on&encrypt_key=" + url.QueryEscape(key))
	case 2:
		return vxFromURL("fscache://" + base + "?appname=app&encrypt=aesgcm&encrypt_key=" + url.QueryEscape(key))
	default:
		vxSetenv("FSCACHE_ENCRYPT_KEY", key)
		return vxFromURL("fscache://" + base + "?appname=app&encrypt=on")
	}
}

func vxBaseDir() string {
	if vxIsSymbolic() {
		return "/base"
	}
	if vxTmpDir == "" {
		d, err := os.MkdirTemp("", "vxfs")
		if err != nil {
			panic(err)
		}
		vxTmpDir = d
	}
	return vxTmpDir
}

func vxOpen(opts ...Option) (*fsCache, error) {
	if vxIsSymbolic() && vxFS == nil {
		vxFS = vxNewFS()
	}
	c, err := Open("app", opts...)
	if err == nil && vxIsSymbolic() {
		c.dw = vxWalker{}
	}
	return c, err
}

func vxFromURL(dsn string) (*fsCache, error) {
	if vxIsSymbolic() && vxFS == nil {
		vxFS = vxNewFS()
	}
	u, err := url.Parse(dsn)
	if err != nil {
		panic(err)
	}
	c, err := fromURL(u)
	if err == nil && vxIsSymbolic() {
		c.dw = vxWalker{}
	}
	return c, err
}

// vxRawFiles returns the content of every regular file below the store's directory.
func vxRawFiles(c *fsCache) [][]byte {
	var out [][]byte
	if vxIsSymbolic() {
		var rec func(n *vxNode)
		rec = func(n *vxNode) {
			for _, ch := range n.children {
				if ch.dir {
					rec(ch)
				} else {
					out = append(out, ch.data)
				}
			}
		}
		rec(vxFS.root)
		return out
	}
	_ = filepath.WalkDir(c.base, func(p string, d os.DirEntry, err error) error {
		if err == nil && !d.IsDir() {
			b, _ := os.ReadFile(p)
			out = append(out, b)
		}
		return nil
	})
	return out
}

func vxRawRead(c *fsCache, key string) []byte {
	name := c.fn.FileName(key)
	if vxIsSymbolic() {
		d, last, err := vxFS.walk("open", name)
		if err != nil || d.children[last] == nil {
			return nil
		}
		return append([]byte(nil), d.children[last].data...)
	}
	b, _ := os.ReadFile(filepath.Join(c.base, name))
	return b
}

func vxRawWrite(c *fsCache, key string, b []byte) {
	name := c.fn.FileName(key)
	if vxIsSymbolic() {
		d, last, err := vxFS.walk("open", name)
		if err != nil || d.children[last] == nil {
			vxStop()
		}
		d.children[last].data = append([]byte(nil), b...)
		return
	}
	if err := os.WriteFile(filepath.Join(c.base, name), b, 0o644); err != nil {
		panic(err)
	}
}

// vxCiphertextOnly: file is exactly nonce || Seal(nonce, . v) for the sealIdx-th Seal
// (symgo); natively: the expected length and no occurrence of v.
func vxCiphertextOnly(file, v []byte, sealIdx int) bool {
	if vxIsSymbolic() {
		if sealIdx >= len(vxSeals) {
			return false
		}
		s := vxSeals[sealIdx]
		if len(s.nonce) != 12 || len(s.pt) < len(v) || !vxBytesEq(s.pt[len(s.pt)-len(v):], v) {
			return false
		}
		return vxBytesEq(file, append(append([]byte(nil), s.nonce...), s.ct...))
	}
	return len(file) >= len(v)+28 && len(file) <= len(v)+28+16 && (len(v) < 4 || !bytes.Contains(file, v))
}

// vxNonceFresh: the nonce of the sealIdx-th Seal is exactly the sealIdx-th draw of 12
// bytes from the random source, and nothing else was drawn (symgo; natively true - the
// replay compares the files instead).
func vxNonceFresh(sealIdx int) bool {
	if !vxIsSymbolic() {
		return true
	}
	if sealIdx >= len(vxSeals) || len(vxRandLog) != len(vxSeals) {
		return false
	}
	return vxBytesEq(vxSeals[sealIdx].nonce, vxRandLog[sealIdx])
}

func vxResetCrypto() {
	vxSeals, vxSealSeq, vxRandLog, vxRandSeq = nil, 0, nil, 0
}

// VxC17_AtRest: for every way of switching encryption on and every usable key, what the
// backend writes is ciphertext only (also the temporary files and every buffer passed to
// Write), each Set draws a fresh nonce - two Sets of one value give different files -
// and Get returns the value.
func VxC17_AtRest() {
	vxResetCrypto()
	how := vxChoice("how", 4)
	key := vxGoodKeys[vxChoice("key", len(vxGoodKeys))]
	c, err := vxOpenHow(how, key)
	vxAssert(err == nil, "C17/open-with-usable-key-failed")
	if err != nil {
		return
	}
	vxAssert(c.enc != nil, "C17/encryption-requested-but-not-enabled")
	n := vxChoice("len", 6) + 4
	v := []byte(vxStr("v", n))
	vxAssert(c.Set("k", v) == nil, "C17/set-failed")
	f1 := vxRawRead(c, "k")
	vxAssert(vxCiphertextOnly(f1, v, 0), "C17/file-is-not-ciphertext-only")
	for _, f := range vxRawFiles(c) {
		vxAssert(vxBytesEq(f, f1), "C17/other-file-written")
	}
	if vxIsSymbolic() {
		for _, w := range vxFS.log {
			vxAssert(vxBytesEq(w, f1), "C17/plaintext-passed-to-write")
		}
	}
	got, gerr := c.Get("k")
	vxAssert(gerr == nil && vxBytesEq(got, v), "C17/get-after-set-differs")
	// the key in use is the configured one: a store opened with that key reads the value
	if cc, cerr := vxOpenHow(0, key); cerr == nil {
		got2, gerr2 := cc.Get("k")
		vxAssert(gerr2 == nil && vxBytesEq(got2, v), "C17/value-not-readable-with-the-configured-key")
	} else {
		vxAssert(false, "C17/open-with-usable-key-failed")
	}
	// the same value again, and once more through a store opened again (a new process):
	// every write draws a fresh nonce, so the three files differ
	fresh := vxNonceFresh(0)
	vxAssert(c.Set("k", v) == nil, "C17/set-failed")
	f2 := vxRawRead(c, "k")
	vxAssert(vxCiphertextOnly(f2, v, 1), "C17/file-is-not-ciphertext-only")
	fresh = vxAnd(fresh, vxNonceFresh(1))
	c3, err3 := vxOpenHow(how, key)
	if err3 != nil {
		vxAssert(false, "C17/open-with-usable-key-failed")
		return
	}
	vxAssert(c3.Set("k", v) == nil, "C17/set-failed")
	f3 := vxRawRead(c3, "k")
	vxAssert(vxCiphertextOnly(f3, v, 2), "C17/file-is-not-ciphertext-only")
	fresh = vxAnd(fresh, vxNonceFresh(2))
	if !vxIsSymbolic() {
		fresh = !bytes.Equal(f1, f2) && !bytes.Equal(f3, f1) && !bytes.Equal(f3, f2) &&
			!bytes.Equal(f1[:12], f2[:12]) && !bytes.Equal(f3[:12], f1[:12]) && !bytes.Equal(f3[:12], f2[:12])
	}
	vxAssert(fresh, "C17/same-ciphertext-for-two-writes")
	vxCover("C17/at-rest")
}

// VxC17_Tamper: any modification of a stored file - other bytes of the same length, a
// truncation, an extension - is rejected by Get; a store opened with another key reads
// nothing.  (A modification that reproduces a complete older file of the same key cannot
// be detected by any stateless scheme and is excluded.)
func VxC17_Tamper() {
	vxResetCrypto()
	c, err := vxOpenHow(0, vxTestKeyB64)
	if err != nil {
		vxStop()
	}
	v := []byte(vxStr("v", 2))
	w := []byte(vxStr("w", 2))
	vxAssert(c.Set("k", v) == nil, "C17/set-failed")
	two := vxChoice("other-entry", 2) == 1
	if two {
		vxAssert(c.Set("kj", w) == nil, "C17/set-failed")
	}
	orig := vxRawRead(c, "k")
	L := len(orig) // 12 + 2 + 16
	switch vxChoice("attack", 4) {
	case 0: // other bytes, any length around the boundaries
		lens := []int{0, 1, 11, 12, 13, 27, 28, L - 1, L, L + 1, L + 16}
		m := []byte(vxStr("m", lens[vxChoice("mlen", len(lens))]))
		vxAssume(!vxBytesEq(m, orig))
		if two {
			vxAssume(!vxBytesEq(m, vxRawRead(c, "kj"))) // substitution is the next case (the other key extends this one: "k", "kj")
		}
		vxRawWrite(c, "k", m)
		got, gerr := c.Get("k")
		vxAssert(gerr != nil, "C17/modified-file-accepted")
		vxAssert(len(got) == 0, "C17/data-returned-with-error")
	case 1: // one byte changed at any position
		pos := vxInt("pos", 0, L-1)
		m := append([]byte(nil), orig...)
		nb := vxByte("nb")
		vxAssume(nb != m[pos])
		m[pos] = nb
		if two {
			vxAssume(!vxBytesEq(m, vxRawRead(c, "kj"))) // substitution is the next case (the other key extends this one: "k", "kj")
		}
		vxRawWrite(c, "k", m)
		_, gerr := c.Get("k")
		vxAssert(gerr != nil, "C17/modified-file-accepted")
	case 2: // the file of another key put in its place
		if !two {
			vxStop()
		}
		vxRawWrite(c, "k", vxRawRead(c, "kj"))
		got, gerr := c.Get("k")
		vxAssert(gerr != nil || vxBytesEq(got, v), "C17/file-of-another-key-accepted")
	case 3: // another key
		other := vxGoodKeys[1+vxChoice("key2", 3)]
		c2, err := vxOpenHow(vxChoice("how2", 4), other)
		if err != nil {
			vxStop()
		}
		got, gerr := c2.Get("k")
		vxAssert(gerr != nil && len(got) == 0, "C17/wrong-key-yields-data")
	}
	vxCover("C17/tamper")
}

// VxC17_NoKey: encryption switched on without a usable key fails at open - no store is
// returned that would silently write plaintext.
func VxC17_NoKey() {
	how := vxChoice("how", 4)
	var key string
	switch vxChoice("badkey", 6) {
	case 0:
		key = "" // no key at all
	case 1:
		if how != 0 {
			vxStop() // (arbitrary strings only through the option; the DSN paths get the fixed ones)
		}
		key = vxStr("key", vxChoice("klen", 4)+1) // short arbitrary strings
	case 2:
		key = "MDEyMzQ1Njc4OWFiY2RlZg" // valid key material without padding
	case 3:
		key = "MDEyMzQ1Njc4OWFiY2Rl" // 15 bytes
	case 4:
		key = "6S+Ks2YYOW0xMvTzKSv6QD30gZeOi1c6Ydr/As5csWk=" // standard alphabet, not URL-safe
	case 5:
		key = vxTestKeyB64 + "AAAA" // 35 bytes
	}
	c, err := vxOpenHow(how, key)
	vxCover("C17/nokey")
	if err == nil {
		// a store was returned: then it must encrypt (the key was usable after all)
		vxAssert(c.enc != nil, "C17/opened-without-encryption-despite-request")
		vxAssert(false, "C17/open-succeeded-with-unusable-key")
	}
}

package fscache

import (
	"errors"
	"sort"

	"github.com/bartventer/httpcache/store/driver"
)

// vxKeys: two keys of adversarial shape: short symbolic ones that may be equal or
// prefixes of each other.
func vxShortKey(p string) string { return vxStr(p, vxChoice(p+".len", vxMaxLen())) }

// vxMaxLen: key and value lengths 0..2 (quick) or 0..3 (thorough)
func vxMaxLen() int {
	if vxTier() == "thorough" {
		return 4
	}
	return 3
}

func vxBytesEq(a, b []byte) bool {
	if len(a) != len(b) {
		return false
	}
	r := true
	for i := range a {
		r = vxAnd(r, a[i] == b[i])
	}
	return r
}

// VxC14_Ops: a sequence of Set/Get/Delete/Keys calls on the file-system backend (with a
// reopen between any two of them) answers exactly as a map would (C14, C09).
func VxC14_Ops() {
	// (thorough widens keys and values to 0..3 bytes; a fourth operation exceeds three
	// million paths and was dropped)
	vxOps(nil, 3)
}

// VxC14_OpsEnc: the same over the encrypted file-system backend (AES-GCM as its
// contract, aead.go).
func VxC14_OpsEnc() {
	n := 2
	if vxTier() == "thorough" {
		n = 3
	}
	vxResetCrypto()
	vxOps([]Option{WithEncryption(vxTestKeyB64)}, n)
}

func vxOps(opts []Option, n int) {
	c := vxNewCache(opts...)
	keys := [2]string{vxShortKey("k0"), vxShortKey("k1")}
	model := map[string][]byte{}
	for step := 0; step < n; step++ {
		s := string(rune('0' + step))
		if vxChoice("reopen"+s, 2) == 1 {
			c = vxNewCache(opts...) // close and reopen the persistent backend
		}
		k := keys[vxChoice("key"+s, 2)]
		switch vxChoice("op"+s, 4) {
		case 0: // Set
			v := []byte(vxStr("v"+s, vxChoice("vlen"+s, vxMaxLen())))
			buf := append([]byte(nil), v...)
			err := c.Set(k, buf)
			vxAssert(err == nil, "C14/set-failed")
			for i := range buf {
				buf[i] = 'X' // the caller's buffer is not the store's
			}
			model[k] = v
		case 1: // Get
			got, err := c.Get(k)
			want, ok := model[k]
			if ok {
				vxAssert(err == nil, "C14/get-of-present-key-failed")
				vxAssert(err != nil || vxBytesEq(got, want), "C14/get-returned-other-bytes")
				for i := range got {
					got[i] = 'Y' // mutating the result must not change the store
				}
			} else {
				vxAssert(err != nil && errors.Is(err, driver.ErrNotExist), "C14/absent-key-not-reported-as-not-exist")
			}
		case 2: // Delete
			err := c.Delete(k)
			if _, ok := model[k]; ok {
				vxAssert(err == nil, "C14/delete-of-present-key-failed")
			} else {
				vxAssert(err != nil && errors.Is(err, driver.ErrNotExist), "C14/delete-of-absent-key-not-reported")
			}
			delete(model, k)
		default: // Keys with a prefix
			prefix := k
			got, err := c.Keys(prefix)
			vxAssert(err == nil, "C14/keys-failed")
			var want []string
			for mk := range model {
				if len(mk) >= len(prefix) && mk[:len(prefix)] == prefix {
					want = append(want, mk)
				}
			}
			sort.Strings(got)
			sort.Strings(want)
			same := len(got) == len(want)
			if same {
				for i := range got {
					same = vxAnd(same, got[i] == want[i])
				}
			}
			vxAssert(same, "C14/keys-listing-differs-from-live-keys")
		}
	}
	vxCover("C14/ops")
}


// vxAudit: at the end of a sequence the whole store is compared with the model - every
// key of the harness is read back, and the listing is the set of live keys.
func vxAudit(c *fsCache, keys []string, model map[string][]byte) {
	for _, k := range keys {
		got, err := c.Get(k)
		if want, ok := model[k]; ok {
			vxAssert(err == nil, "C14/get-of-present-key-failed")
			vxAssert(err != nil || vxBytesEq(got, want), "C14/get-returned-other-bytes")
		} else {
			vxAssert(err != nil && errors.Is(err, driver.ErrNotExist), "C14/absent-key-not-reported-as-not-exist")
		}
	}
	ks, err := c.Keys("")
	vxAssert(err == nil, "C14/keys-failed")
	same := len(ks) == len(model)
	if same {
		for _, g := range ks {
			_, ok := model[g]
			same = same && ok
		}
	}
	vxAssert(same, "C14/keys-listing-differs-from-live-keys")
}

// VxC14_OpsLong: the same for keys long enough to be stored in a chain of fragment
// directories: two keys with a common part of 300 bytes and short symbolic tails (equal,
// one a prefix of the other, or siblings in the last directory), plus a short key.
func VxC14_OpsLong() {
	c := vxNewCache()
	common := ""
	for i := 0; i < 30; i++ {
		common += "0123456789"
	}
	keys := [3]string{common + vxStr("t0", vxChoice("t0.len", 3)), common + vxStr("t1", vxChoice("t1.len", 3)), vxStr("s", 1)}
	model := map[string][]byte{}
	for step := 0; step < 3; step++ {
		s := string(rune('0' + step))
		k := keys[vxChoice("key"+s, 3)]
		switch vxChoice("op"+s, 4) {
		case 0:
			v := []byte(vxStr("v"+s, 1))
			vxAssert(c.Set(k, v) == nil, "C14/set-failed")
			model[k] = v
		case 1:
			got, err := c.Get(k)
			if want, ok := model[k]; ok {
				vxAssert(err == nil, "C14/get-of-present-key-failed")
				vxAssert(err != nil || vxBytesEq(got, want), "C14/get-returned-other-bytes")
			} else {
				vxAssert(err != nil && errors.Is(err, driver.ErrNotExist), "C14/absent-key-not-reported-as-not-exist")
			}
		case 2:
			err := c.Delete(k)
			if _, ok := model[k]; ok {
				vxAssert(err == nil, "C14/delete-of-present-key-failed")
			} else {
				vxAssert(err != nil && errors.Is(err, driver.ErrNotExist), "C14/delete-of-absent-key-not-reported")
			}
			delete(model, k)
		default:
			got, err := c.Keys("")
			vxAssert(err == nil, "C14/keys-failed")
			same := len(got) == len(model)
			if same {
				for _, g := range got {
					_, ok := model[g]
					same = same && ok
				}
			}
			vxAssert(same, "C14/keys-listing-differs-from-live-keys")
		}
	}
	vxAudit(c, keys[:], model)
	vxCover("C14/ops-long")
}

package fscache

// VxC09_Reopen: what the transport stores under a key is what it finds under that key
// later - on the plain and on the encrypted file-system backend, also after the store
// was closed and opened again, for keys of every boundary length (C09: a stored
// response stays reachable across backends and reopen).
func VxC09_Reopen() {
	var opts []Option
	if vxChoice("encrypt", 2) == 1 {
		vxResetCrypto()
		opts = append(opts, WithEncryption(vxTestKeyB64))
	}
	lens := [...]int{1, 36, 37, 191, 192, 252}
	k := vxKey("k", lens[vxChoice("len", len(lens))])
	v := []byte(vxStr("v", 3))
	c := vxNewCache(opts...)
	vxAssert(c.Set(k, v) == nil, "C09/store-write-failed")
	if vxChoice("reopen", 2) == 1 {
		c = vxNewCache(opts...)
	}
	got, err := c.Get(k)
	vxCover("C09/reopen")
	vxAssert(err == nil, "C09/stored-entry-not-found-again")
	vxAssert(err != nil || vxBytesEq(got, v), "C09/stored-entry-changed")
}

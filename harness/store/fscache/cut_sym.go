package fscache

// vxCutSet runs c.Set(key, v) with the fault (kind, at, k) injected.  Under symgo the
// fault is injected into the file-system model; natively only kind 0 (a write that
// stores k bytes and then fails) can be reproduced, by limiting the file size of the
// process (RLIMIT_FSIZE) around the call - the other kinds end the replay.
func vxCutSet(c *fsCache, key string, v []byte, kind, at, k int) {
	if vxIsSymbolic() {
		f := vxFS
		f.cutAt, f.cutLen = f.calls+at, k
		f.cutKind = [...]int{1, 0, 2}[kind]
		func() {
			defer func() {
				if r := recover(); r != nil {
					if _, ok := r.(vxCrash); !ok {
						panic(r)
					}
				}
			}()
			_ = c.set(key, v)
		}()
		f.cutAt = -1
		return
	}
	vxNativeCutSet(c, key, v, kind, at, k)
}

package fscache

// vxFS: the file-system model behind os.Root / os.File under symgo (DESIGN.md §5):
// a tree of directories and regular files; Create = create-or-truncate, visible at
// once; Write appends (all of it, or a prefix when a cut is injected); data written is
// visible to every other handle immediately (process crash model, not power loss).
// Natively (replays) the harnesses run on a real temporary directory instead.

import (
	"context"
	"io"
	"io/fs"
	"os"
	"strings"
	"time"
)

type vxNode struct {
	dir      bool
	data     []byte
	children map[string]*vxNode
}

type vxHandle struct {
	node *vxNode
	off  int
}

type vxCrash struct{} // the process dies at this file-system call

type vxFST struct {
	root    *vxNode
	handles map[*os.File]*vxHandle
	calls   int // file-system calls so far (cut points are counted in calls)
	cutAt   int // the call at which a fault happens (-1: never)
	cutKind int // 0: the process dies before the call; 1: Write stores only cutLen bytes and fails; 2: the process dies after a partial Write
	cutLen  int
	log     [][]byte // every buffer passed to File.Write
	conc    bool     // concurrent mode: every call that touches shared state is a scheduling point, a Write lands in two halves
}

var vxFS *vxFST

func vxNewFS() *vxFST {
	return &vxFST{root: &vxNode{dir: true, children: map[string]*vxNode{}}, handles: map[*os.File]*vxHandle{}, cutAt: -1}
}

func (f *vxFST) step() { f.stepY(true) }

// stepY: yield marks the calls whose order against other goroutines can matter; calls
// that commute with every other call of the model (MkdirAll of an existing or new
// directory chain, Sync, Chtimes) are not scheduling points.
func (f *vxFST) stepY(yield bool) {
	if f.conc && yield {
		vxYield()
	}
	if f.cutAt == f.calls && f.cutKind == 0 {
		f.calls++
		panic(vxCrash{})
	}
	f.calls++
}

func vxSplit(name string) []string {
	var parts []string
	cur := ""
	for i := 0; i < len(name); i++ {
		if name[i] == '/' {
			parts = append(parts, cur)
			cur = ""
		} else {
			cur += string([]byte{name[i]})
		}
	}
	return append(parts, cur)
}

func vxPathErr(op, name string, err error) error { return &fs.PathError{Op: op, Path: name, Err: err} }

// walk returns the parent directory of name and its last element.
func (f *vxFST) walk(op, name string) (*vxNode, string, error) {
	parts := vxSplit(name)
	d := f.root
	for _, p := range parts[:len(parts)-1] {
		if p == "" || p == "." {
			continue
		}
		n, ok := d.children[p]
		if !ok {
			return nil, "", vxPathErr(op, name, fs.ErrNotExist)
		}
		if !n.dir {
			return nil, "", vxPathErr(op, name, vxErrNotDir)
		}
		d = n
	}
	last := parts[len(parts)-1]
	if last == "" || last == "." {
		// an empty final element names no file (the real os.Root answers ENOENT / EINVAL)
		return nil, "", vxPathErr(op, name, fs.ErrNotExist)
	}
	return d, last, nil
}

var vxErrNotDir = &vxErrT{"not a directory"}
var vxErrIsDir = &vxErrT{"is a directory"}
var vxErrShort = &vxErrT{"no space left on device"}

type vxErrT struct{ s string }

func (e *vxErrT) Error() string { return e.s }

func vxRootMkdirAll(r *os.Root, name string, perm fs.FileMode) error {
	f := vxFS
	f.stepY(false)
	d := f.root
	for _, p := range vxSplit(name) {
		if p == "" || p == "." {
			continue
		}
		n, ok := d.children[p]
		if !ok {
			n = &vxNode{dir: true, children: map[string]*vxNode{}}
			d.children[p] = n
		} else if !n.dir {
			return vxPathErr("mkdir", name, vxErrNotDir)
		}
		d = n
	}
	return nil
}

func vxRootCreate(r *os.Root, name string) (*os.File, error) {
	f := vxFS
	f.step()
	d, last, err := f.walk("open", name)
	if err != nil {
		return nil, err
	}
	n, ok := d.children[last]
	if ok && n.dir {
		return nil, vxPathErr("open", name, vxErrIsDir)
	}
	if !ok {
		n = &vxNode{}
		d.children[last] = n
	}
	n.data = nil // truncate
	h := new(os.File)
	f.handles[h] = &vxHandle{node: n}
	return h, nil
}

func vxRootOpen(r *os.Root, name string) (*os.File, error) {
	f := vxFS
	f.step()
	d, last, err := f.walk("open", name)
	if err != nil {
		return nil, err
	}
	n, ok := d.children[last]
	if !ok {
		return nil, vxPathErr("open", name, fs.ErrNotExist)
	}
	h := new(os.File)
	f.handles[h] = &vxHandle{node: n}
	return h, nil
}

func vxRootRemove(r *os.Root, name string) error {
	f := vxFS
	f.step()
	d, last, err := f.walk("remove", name)
	if err != nil {
		return err
	}
	n, ok := d.children[last]
	if !ok {
		return vxPathErr("remove", name, fs.ErrNotExist)
	}
	if n.dir && len(n.children) > 0 {
		return vxPathErr("remove", name, &vxErrT{"directory not empty"})
	}
	delete(d.children, last)
	return nil
}

// RemoveAll removes name and everything below it; a missing name is not an error.
func vxRootRemoveAll(r *os.Root, name string) error {
	f := vxFS
	f.step()
	d, last, err := f.walk("removeall", name)
	if err != nil {
		return nil
	}
	delete(d.children, last)
	return nil
}

type vxFileInfo struct {
	name string
	size int64
	dir  bool
}

func (i vxFileInfo) Name() string       { return i.name }
func (i vxFileInfo) Size() int64        { return i.size }
func (i vxFileInfo) Mode() fs.FileMode  { return 0o644 }
func (i vxFileInfo) ModTime() time.Time { return time.Time{} }
func (i vxFileInfo) IsDir() bool        { return i.dir }
func (i vxFileInfo) Sys() any           { return nil }

func vxRootStat(r *os.Root, name string) (fs.FileInfo, error) {
	f := vxFS
	f.step()
	d, last, err := f.walk("stat", name)
	if err != nil {
		return nil, err
	}
	n, ok := d.children[last]
	if !ok {
		return nil, vxPathErr("stat", name, fs.ErrNotExist)
	}
	return vxFileInfo{last, int64(len(n.data)), n.dir}, nil
}

func vxFileStat(h *os.File) (fs.FileInfo, error) {
	hd := vxFS.handles[h]
	return vxFileInfo{"", int64(len(hd.node.data)), hd.node.dir}, nil
}

func vxRootRename(r *os.Root, oldname, newname string) error {
	f := vxFS
	f.step()
	d1, l1, err := f.walk("rename", oldname)
	if err != nil {
		return err
	}
	n, ok := d1.children[l1]
	if !ok {
		return vxPathErr("rename", oldname, fs.ErrNotExist)
	}
	d2, l2, err := f.walk("rename", newname)
	if err != nil {
		return err
	}
	if t, ok := d2.children[l2]; ok && t.dir != n.dir {
		return vxPathErr("rename", newname, vxErrIsDir)
	}
	delete(d1.children, l1)
	d2.children[l2] = n // atomic replace
	return nil
}

func vxRootName(r *os.Root) string { return "/vx" }

func vxRootChtimes(r *os.Root, name string, atime, mtime time.Time) error {
	vxFS.stepY(false)
	return nil
}

// put writes b at the handle's offset (a gap left by a truncation reads as zeros).
func (hd *vxHandle) put(b []byte) {
	n := hd.node
	for len(n.data) < hd.off {
		n.data = append(n.data, 0)
	}
	for i := range b {
		if hd.off < len(n.data) {
			n.data[hd.off] = b[i]
		} else {
			n.data = append(n.data, b[i])
		}
		hd.off++
	}
}

func vxFileWrite(h *os.File, b []byte) (int, error) {
	f := vxFS
	hd := f.handles[h]
	f.log = append(f.log, append([]byte(nil), b...))
	if f.cutAt == f.calls && f.cutKind >= 1 {
		k := f.cutLen
		if k > len(b) {
			k = len(b)
		}
		hd.put(b[:k])
		kind := f.cutKind
		f.calls++
		if kind == 2 {
			panic(vxCrash{})
		}
		return k, vxErrShort
	}
	f.step()
	if f.conc && len(b) > 1 {
		hd.put(b[:len(b)/2])
		vxYield()
		hd.put(b[len(b)/2:])
		return len(b), nil
	}
	hd.put(b)
	return len(b), nil
}

func vxFileRead(h *os.File, p []byte) (int, error) {
	if vxFS.conc {
		vxYield()
	}
	hd := vxFS.handles[h]
	if hd.off >= len(hd.node.data) {
		return 0, io.EOF
	}
	n := copy(p, hd.node.data[hd.off:])
	hd.off += n
	return n, nil
}

func vxFileSync(h *os.File) error  { vxFS.stepY(false); return nil }
func vxFileClose(h *os.File) error { return nil }

func vxOSMkdirAll(path string, perm os.FileMode) error { return nil }
func vxOSOpenRoot(name string) (*os.Root, error)       { return new(os.Root), nil }
func vxOSUserCacheDir() (string, error)                 { return "/cache", nil }

func vxCtxWithTimeout(parent context.Context, d time.Duration) (context.Context, context.CancelFunc) {
	return parent, func() {}
}

var vxReplace = map[string]any{
	"(*os.Root).MkdirAll":  vxRootMkdirAll,
	"(*os.Root).Create":    vxRootCreate,
	"(*os.Root).Open":      vxRootOpen,
	"(*os.Root).Remove":    vxRootRemove,
	"(*os.Root).Rename":    vxRootRename,
	"(*os.Root).RemoveAll": vxRootRemoveAll,
	"(*os.Root).Stat":      vxRootStat,
	"(*os.Root).Lstat":     vxRootStat,
	"(*os.File).Stat":      vxFileStat,
	"(*os.Root).Name":      vxRootName,
	"(*os.Root).Chtimes":   vxRootChtimes,
	"(*os.File).Write":     vxFileWrite,
	"(*os.File).Read":      vxFileRead,
	"(*os.File).Sync":      vxFileSync,
	"(*os.File).Close":     vxFileClose,
	"os.MkdirAll":          vxOSMkdirAll,
	"os.OpenRoot":          vxOSOpenRoot,
	"os.UserCacheDir":      vxOSUserCacheDir,
	"context.WithTimeout":  vxCtxWithTimeout,
	"time.Now":             func() time.Time { return time.Time{} },
	"crypto/rand.Text":     vxRandText,
}

// vxRandText: crypto/rand.Text under symgo - a fresh name on every call (the contract
// of a 128-bit random string: no two calls return the same text).
var vxRandTextSeq int

func vxRandText() string {
	vxRandTextSeq++
	return "R" + string(rune('A'+vxRandTextSeq/26%26)) + string(rune('A'+vxRandTextSeq%26))
}

// vxWalker lists the regular files of the model below the root ("/vx/<path>").
type vxWalker struct{}

func (vxWalker) WalkDir(root string, fn fs.WalkDirFunc) error {
	var rec func(prefix string, n *vxNode) error
	rec = func(prefix string, n *vxNode) error {
		for name, c := range n.children {
			p := prefix + "/" + name
			if err := fn(p, vxDirEntry{name, c.dir}, nil); err != nil {
				return err
			}
			if c.dir {
				if err := rec(p, c); err != nil {
					return err
				}
			}
		}
		return nil
	}
	return rec(root, vxFS.root)
}

type vxDirEntry struct {
	name string
	dir  bool
}

func (e vxDirEntry) Name() string               { return e.name }
func (e vxDirEntry) IsDir() bool                { return e.dir }
func (e vxDirEntry) Type() fs.FileMode          { return 0 }
func (e vxDirEntry) Info() (fs.FileInfo, error) { return nil, nil }

// vxNewCache returns the cache under test: over the model under symgo, over a real
// temporary directory natively.  A second call with reopen=true opens the same store
// again (a new fsCache over the same tree / directory).
var vxTmpDir string

func vxNewCache(opts ...Option) *fsCache {
	if vxIsSymbolic() {
		if vxFS == nil {
			vxFS = vxNewFS()
		}
		c, err := Open("app", append([]Option{WithBaseDir("/base")}, opts...)...)
		if err != nil {
			panic(err)
		}
		c.dw = vxWalker{}
		return c
	}
	if vxTmpDir == "" {
		d, err := os.MkdirTemp("", "vxfs")
		if err != nil {
			panic(err)
		}
		vxTmpDir = d
	}
	c, err := Open("app", append([]Option{WithBaseDir(vxTmpDir)}, opts...)...)
	if err != nil {
		panic(err)
	}
	return c
}

var _ = strings.HasPrefix

package fscache

import (
	"crypto/cipher"
	"errors"
	"io"
)

// vxAEAD: the contract of AES-GCM given to the solver (DESIGN.md §5): Seal appends an
// opaque block of len(plaintext)+16 fresh, unconstrained bytes; Open succeeds exactly on
// a (nonce, ciphertext) pair produced by Seal under the same key and returns that
// plaintext; under one key and nonce different plaintexts have different outputs.
// Cryptographic strength is trusted, not checked.
const vxTestKeyB64 = "6S-Ks2YYOW0xMvTzKSv6QD30gZeOi1c6Ydr-As5csWk="

type vxBlockT struct{ key []byte }

func (b vxBlockT) BlockSize() int          { return 16 }
func (b vxBlockT) Encrypt(dst, src []byte) {}
func (b vxBlockT) Decrypt(dst, src []byte) {}

type vxSealed struct {
	key, nonce, ct, pt []byte
}

type vxGCMT struct{ key []byte }

var vxSeals []*vxSealed
var vxSealSeq int

func (g vxGCMT) NonceSize() int { return 12 }
func (g vxGCMT) Overhead() int  { return 16 }
func (g vxGCMT) Seal(dst, nonce, plaintext, ad []byte) []byte {
	ct := []byte(vxStr("ct"+string(rune('0'+vxSealSeq)), len(plaintext)+16))
	vxSealSeq++
	// for one key and nonce the ciphertext determines the plaintext (GCM is a keystream
	// XOR plus a tag): two different plaintexts never give the same output
	for _, s := range vxSeals {
		if len(s.pt) == len(plaintext) && vxBytesEq(s.key, g.key) && vxBytesEq(s.nonce, nonce) && !vxBytesEq(s.pt, plaintext) {
			vxAssume(!vxBytesEq(s.ct, ct))
		}
	}
	vxSeals = append(vxSeals, &vxSealed{key: g.key, nonce: append([]byte(nil), nonce...), ct: ct, pt: append([]byte(nil), plaintext...)})
	return append(dst, ct...)
}

var vxErrAuth = errors.New("cipher: message authentication failed")

func (g vxGCMT) Open(dst, nonce, ciphertext, ad []byte) ([]byte, error) {
	for _, s := range vxSeals {
		if vxBytesEq(s.key, g.key) && vxBytesEq(s.nonce, nonce) && vxBytesEq(s.ct, ciphertext) {
			return append(dst, s.pt...), nil
		}
	}
	return nil, vxErrAuth
}

func vxNewCipher(key []byte) (cipher.Block, error) {
	if len(key) != 16 && len(key) != 24 && len(key) != 32 {
		return nil, errors.New("crypto/aes: invalid key size")
	}
	return vxBlockT{append([]byte(nil), key...)}, nil
}

func vxNewGCM(b cipher.Block) (cipher.AEAD, error) { return vxGCMT{b.(vxBlockT).key}, nil }

// vxRandT: crypto/rand.Reader under symgo: fresh unconstrained bytes.
type vxRandT struct{}

var vxRandSeq int
var vxRandLog [][]byte

func (vxRandT) Read(p []byte) (int, error) {
	b := []byte(vxStr("rnd"+string(rune('0'+vxRandSeq)), len(p)))
	vxRandSeq++
	copy(p, b)
	vxRandLog = append(vxRandLog, b)
	return len(p), nil
}

var vxRandReaderVar io.Reader = vxRandT{}

var vxGlobalAlias = map[string]string{"crypto/rand.Reader": "vxRandReaderVar"}

// vxUseAEAD installs the AEAD contract (symgo only; natively the real AES-GCM runs).
func vxUseAEAD() {
	vxReplace["crypto/aes.NewCipher"] = vxNewCipher
	vxReplace["crypto/cipher.NewGCM"] = vxNewGCM
}

func init() { vxUseAEAD() }

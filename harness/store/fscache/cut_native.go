package fscache

import (
	"os/signal"
	"syscall"
)

// vxNativeCutSet: the write of the value is cut after k bytes by a file-size limit.
func vxNativeCutSet(c *fsCache, key string, v []byte, kind, at, k int) {
	if kind != 0 {
		vxStop() // a process kill cannot be replayed in-process
	}
	signal.Ignore(syscall.SIGXFSZ)
	var old syscall.Rlimit
	if err := syscall.Getrlimit(syscall.RLIMIT_FSIZE, &old); err != nil {
		vxStop()
	}
	lim := old
	lim.Cur = uint64(k)
	if err := syscall.Setrlimit(syscall.RLIMIT_FSIZE, &lim); err != nil {
		vxStop()
	}
	_ = c.set(key, v)
	_ = syscall.Setrlimit(syscall.RLIMIT_FSIZE, &old)
}

package fscache

// VxC15_Cut: a Set that is cut short - the write fails after k bytes, or the process
// dies before any file-system call of the Set or in the middle of the write - never
// leaves a state in which a later Get (by a new process) returns a partial or mixed
// value: Get yields a value that was passed to Set in full, or reports the key absent
// (C15).  With and without encryption.
func VxC15_Cut() {
	enc := vxChoice("encrypt", 2) == 1
	var opts []Option
	if enc {
		vxUseAEAD()
		opts = append(opts, WithEncryption(vxTestKeyB64))
	}
	c := vxNewCache(opts...)
	key := "k"
	hasPrev := vxChoice("prev", 2) == 1
	prev := []byte(vxStr("old", 3))
	if hasPrev {
		vxAssert(c.Set(key, prev) == nil, "C15/setup-set-failed")
	}
	newv := []byte(vxStr("new", 4))
	kind := vxChoice("cut.kind", 3)    // 0: the write stores k bytes and fails; 1: process dies before a call; 2: dies after a partial write
	at := vxChoice("cut.at", 6)        // which file-system call of the Set
	k := vxChoice("cut.len", 5+12+16) // bytes that reach the file (the encrypted value is longer)
	vxCutSet(c, key, newv, kind, at, k)

	c2 := vxNewCache(opts...) // a new process opens the store
	got, err := c2.Get(key)
	vxCover("C15/after-cut")
	if err == nil {
		isNew := vxBytesEq(got, newv)
		isOld := vxAnd(hasPrev, vxBytesEq(got, prev))
		vxAssert(vxOr(isNew, isOld), "C15/get-returned-partial-or-mixed-value")
	}
	// what an interrupted write leaves behind is not a key (C14: listing = live keys)
	ks, kerr := c2.keys("")
	vxAssert(kerr == nil, "C15/keys-failed-after-cut")
	for _, k2 := range ks {
		vxAssert(k2 == key, "C15/keys-lists-leftover-of-cut-write")
	}
	vxAssert(len(ks) == 0 || err == nil, "C15/keys-lists-key-that-get-rejects")
}

package fscache

import (
	"bytes"
	"errors"
	"sync/atomic"

	"github.com/bartventer/httpcache/store/driver"
)

// VxC15_Conc: Set(A) runs concurrently with Set(B) or Delete and with a Get of the same
// key, under every interleaving of their file-system calls (a Write lands in two
// halves, DESIGN.md section 5).  The Get, and a Get after all three have finished, return in full
// a value passed to Set or report the key absent, and the history is linearisable as a
// register with delete (C15).  Natively the schedule cannot be forced: the replay runs
// the same operations as real goroutines in a loop with large values and reports the
// first iteration that violates the same assertions.
type vxOpRec struct {
	kind     int // 0 set, 1 delete, 2 get
	val      int // value id written (set) or observed (get); 0 = absent
	inv, ret int
}

var vxTick64 int64

// vxTock: a global logical clock; an operation that returned before another was
// invoked has the smaller reading (also natively, where it is an atomic counter).
func vxTock() int { return int(atomic.AddInt64(&vxTick64, 1)) }

func vxLinearisable(ops []vxOpRec, init int) bool {
	n := len(ops)
	used := make([]bool, n)
	var rec func(done int, cur int) bool
	rec = func(done int, cur int) bool {
		if done == n {
			return true
		}
		for i := 0; i < n; i++ {
			if used[i] {
				continue
			}
			// i may come next only if no unused op returned before i was invoked
			ok := true
			for j := 0; j < n; j++ {
				if j != i && !used[j] && ops[j].ret < ops[i].inv {
					ok = false
				}
			}
			if !ok {
				continue
			}
			next := cur
			switch ops[i].kind {
			case 0:
				next = ops[i].val
			case 1:
				next = 0
			case 2:
				if ops[i].val != cur {
					continue
				}
			}
			used[i] = true
			if rec(done+1, next) {
				used[i] = false
				return true
			}
			used[i] = false
		}
		return false
	}
	return rec(0, init)
}

// scenarios: the operations that run concurrently (0 Set(A), 1 Set(B), 2 Delete, 3 Get)
var vxConcScen = [][]int{
	{0, 3},    // Set || Get
	{0, 1},    // Set || Set
	{0, 2},    // Set || Delete
	{2, 3},    // Delete || Get
	{0, 1, 3}, // Set || Set || Get
	{0, 2, 3}, // Set || Delete || Get
}

func VxC15_Conc() {
	hasPrev := vxChoice("prev", 2) == 1
	scen := vxConcScen[vxChoice("scenario", len(vxConcScen))]
	enc := false
	if (vxTier() == "thorough" && len(scen) == 2) || !vxIsSymbolic() {
		enc = vxChoice("encrypt", 2) == 1 // (quick: the cut harness covers encryption)
	}
	var opts []Option
	if enc {
		opts = append(opts, WithEncryption(vxTestKeyB64))
	}
	if len(scen) > 2 && vxTier() != "thorough" {
		vxPreemptBound(2) // quick: three goroutines with at most two preemptions; pairs are exhaustive
	}
	vals := [][]byte{nil, vxGrow([]byte(vxStr("old", 3))), vxGrow([]byte(vxStr("a", 4))), vxGrow([]byte(vxStr("b", 2)))}
	// the three values differ in their first byte, so a prefix of one is never another
	// (a torn value is then reported as torn, not as a stale read)
	vxAssume(vals[1][0] != vals[2][0] && vals[1][0] != vals[3][0] && vals[2][0] != vals[3][0])
	iters := 1
	if !vxIsSymbolic() {
		iters = 400
	}
	for it := 0; it < iters && len(vxFailed) < 3; it++ {
		vxConcOnce(opts, hasPrev, scen, vals)
	}
	if !vxIsSymbolic() && len(vxFailed) == 0 {
		vxConcHammer(opts, hasPrev, scen, vals)
	}
}

// vxConcHammer (native replays only): the operations of the scenario run in tight loops
// against each other for a few thousand rounds; every Get must still return one of the
// values in full or report the key absent.  A narrow race window (for example between
// a Stat and an Open) that 400 single-shot rounds did not hit shows up here.
func vxConcHammer(opts []Option, hasPrev bool, scen []int, vals [][]byte) {
	c := vxNewCache(opts...)
	key := "k"
	_ = c.delete(key)
	if hasPrev {
		_ = c.set(key, vals[1])
	}
	var stop, bad, failed atomic.Int32
	done := make(chan int, 2*len(scen))
	// (a fixed number of rounds: inside the replay's synctest bubble the clock does not
	// advance while goroutines are busy)
	rounds := map[int]int{0: 1500, 1: 1500, 2: 3000, 3: 30000}
	run := func(op int) {
		for r := 0; stop.Load() == 0 && r < rounds[op]; r++ {
			switch op {
			case 0, 1:
				_ = c.set(key, vals[2+op])
				if hasPrev {
					_ = c.set(key, vals[1])
				}
			case 2:
				_ = c.delete(key)
			default:
				got, err := c.get(key)
				if err != nil {
					if !errors.Is(err, driver.ErrNotExist) {
						failed.Add(1)
						stop.Store(1)
					}
					continue
				}
				ok := false
				for id := 1; id <= 3; id++ {
					if bytes.Equal(got, vals[id]) {
						ok = true
					}
				}
				if !ok {
					bad.Add(1)
					stop.Store(1)
				}
			}
		}
		done <- op
	}
	n := 0
	hasGet := false
	for _, op := range scen {
		go run(op)
		n++
		if op == 3 {
			hasGet = true
		}
	}
	if !hasGet { // a reader to observe what the writers leave behind
		go run(3)
		n++
	}
	go run(3)
	n++
	for i := 0; i < n; i++ {
		<-done
	}
	vxAssert(bad.Load() == 0, "C15/concurrent-get-returned-partial-or-mixed-value")
	vxAssert(failed.Load() == 0, "C15/concurrent-get-failed-without-fault")
}

func vxConcOnce(opts []Option, hasPrev bool, scen []int, vals [][]byte) {
	c := vxNewCache(opts...)
	key := "k"
	init := 0
	_ = c.delete(key)
	if hasPrev {
		vxAssert(c.set(key, vals[1]) == nil, "C15/setup-set-failed")
		init = 1
	}
	identify := func(got []byte, err error, label string) int {
		if err != nil {
			vxAssert(errors.Is(err, driver.ErrNotExist), "C15/"+label+"-failed-without-fault")
			return 0
		}
		for id := 1; id <= 3; id++ {
			if vxBytesEq(got, vals[id]) {
				return id
			}
		}
		vxAssert(false, "C15/"+label+"-returned-partial-or-mixed-value")
		return -1
	}
	if vxIsSymbolic() {
		vxFS.conc = true
	}
	ops := make([]vxOpRec, len(scen))
	done := make(chan int, len(scen))
	for gi := range scen {
		go func(gi int) {
			inv := vxTock()
			switch scen[gi] {
			case 0, 1:
				id := 2 + scen[gi]
				ops[gi] = vxOpRec{kind: 0, val: id, inv: inv}
				err := c.set(key, vals[id])
				vxAssert(err == nil, "C15/set-failed-without-fault")
			case 2:
				ops[gi] = vxOpRec{kind: 1, inv: inv}
				err := c.delete(key)
				vxAssert(err == nil || errors.Is(err, driver.ErrNotExist), "C15/delete-failed-without-fault")
			case 3:
				ops[gi] = vxOpRec{kind: 2, inv: inv}
				got, err := c.get(key)
				ops[gi].val = identify(got, err, "concurrent-get")
			}
			ops[gi].ret = vxTock()
			done <- gi
		}(gi)
	}
	for range scen {
		<-done
	}
	if vxIsSymbolic() {
		vxFS.conc = false
	}
	inv := vxTock()
	fin := vxOpRec{kind: 2, inv: inv}
	got, err := c.get(key)
	fin.val = identify(got, err, "final-get")
	fin.ret = vxTock()
	vxCover("C15/conc-done")
	ok := fin.val >= 0
	for _, o := range ops {
		ok = ok && o.val >= 0
	}
	if ok {
		vxAssert(vxLinearisable(append(ops, fin), init), "C15/history-not-linearisable")
	}
}

// vxGrow makes values large natively, so that torn reads are likely in the replay loop.
func vxGrow(b []byte) []byte {
	if vxIsSymbolic() {
		return b
	}
	return bytes.Repeat(b, 1<<16)
}

package fscache

import "strings"

// key lengths around the 48-character fragment and 255-character name boundaries
// (base64 of n bytes has ceil(4n/3) characters: 191 bytes -> 255, 192 bytes -> 256)
var vxKeyLens = [...]int{0, 1, 2, 3, 35, 36, 37, 190, 191, 192, 193, 211, 216, 228, 252, 282}

// vxKey: a key of length n whose first 40 and last 3 bytes are symbolic (all byte
// values) and whose middle is a fixed filler.
func vxKey(p string, n int) string {
	if n <= 43 {
		return vxStr(p, n)
	}
	return vxStr(p+".head", 40) + strings.Repeat("m", n-43) + vxStr(p+".tail", 3)
}

// vxKeyLite: for the pair queries - keys up to 40 bytes fully symbolic; longer keys have
// symbolic bytes 0..2, 32..39 (across the first fragment boundary) and the last 3.
func vxKeyLite(p string, n int) string {
	if n <= 40 {
		return vxStr(p, n)
	}
	return vxStr(p+".h", 3) + strings.Repeat("m", 29) + vxStr(p+".b", 8) + strings.Repeat("m", n-43) + vxStr(p+".tail", 3)
}

// VxC14_NameRoundTrip: the key is recovered from its file name, for keys of every
// boundary length and arbitrary bytes.
// vxKeyLensDense: every length whose encoding is around or beyond the 255-character
// limit up to six/seven fragments (186..300: encoded 248..400, including the lengths
// whose encoding is an exact multiple of the fragment step), plus the small boundaries.
func vxKeyLensDense() []int {
	ls := []int{0, 1, 2, 3, 35, 36, 37, 141, 423, 705}
	for n := 186; n <= 300; n++ {
		ls = append(ls, n)
	}
	return ls
}

func VxC14_NameRoundTrip() {
	ls := vxKeyLensDense()
	n := ls[vxChoice("len", len(ls))]
	k := vxKey("k", n)
	name := fragmentFileName(k)
	back, err := fragmentedFileNameToKey(name)
	vxCover("C14/roundtrip")
	vxAssert(err == nil, "C14/file-name-not-decodable")
	vxAssert(back == k, "C14/file-name-does-not-map-back-to-key")
}

// VxC14_NamePrefixFree: different keys get different file names, and no key's file name
// is a directory prefix of another key's path (else one of them cannot be stored).
func VxC14_NamePrefixFree() {
	n1 := vxKeyLens[vxChoice("len1", len(vxKeyLens))]
	n2 := vxKeyLens[vxChoice("len2", len(vxKeyLens))]
	if n2 < n1 {
		vxStop()
	}
	k1, k2 := vxKeyLite("k1", n1), vxKeyLite("k2", n2)
	vxAssume(k1 != k2)
	f1, f2 := fragmentFileName(k1), fragmentFileName(k2)
	vxCover("C14/pair")
	vxAssert(f1 != f2, "C14/two-keys-one-file")
	vxAssert(!strings.HasPrefix(f2, f1+"/"), "C14/file-of-one-key-is-directory-of-another")
	vxAssert(!strings.HasPrefix(f1, f2+"/"), "C14/file-of-one-key-is-directory-of-another")
}

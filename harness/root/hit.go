package httpcache

import (
	"errors"
	"net/http"
)

var vxErrOrigin = errors.New("vx: origin unreachable")


// vxHitStep: one exchange of the real transport from an arbitrary stored entry (the
// inductive step of DESIGN.md §3, hit path).  withOrigin=false cuts every path at the
// first origin call (after asserting what may be asserted there): enough for the
// properties about responses served without origin contact (C01, C18, part of C11).
func vxHitStep(withOrigin bool, kinds []int) {
	vxND = vxBoundsB()
	vxNoTimer = true
	// thorough lifts the reductions for the checks whose thorough tier ran clean with them
	// lifted (the others keep the quick input space; see checks.json)
	lift := false
	if vxTier() == "thorough" {
		switch vxProp() {
		case "C01", "C02", "C09", "C10", "C13", "C18":
			lift = true
		}
	}
	if withOrigin && !lift {
		vxOptNoAge, vxOptNoExpires, vxOptNoMinFresh = true, true, true
	}
	w := vxNewWorld(0)
	x := vxEntry("e")
	w.seed(x)
	vxClkFloor, vxClkHasFloor = x.e.ReceivedAt, true
	w.clk.start()
	q, qs := vxReqCCBuild("req")
	reqHdr := http.Header{"Cache-Control": []string{qs}}
	req := vxGET(reqHdr)

	// C09: a response that is fresh by more than a second and needs no validation must be
	// served from the store (evaluated at the first clock reading, before the exchange)
	c09Must := false
	{
		_, ageHi0 := vxSpecAge(x, vxTime(vxClockReading(0)))
		sure := vxSureLifetime(x, x.cc.maxAge, x.cc.maxAgeStr)
		comfortablyFresh := vxZLess(vxZAdd(ageHi0, vxZOf(vxSecond)), sure)
		unq := vxAnd(x.cc.noCache, !x.cc.noCacheQualified)
		c09Must = vxAnd(comfortablyFresh, vxAnd(vxAnd(!q.maxAge, !q.minFresh), vxAnd(!q.noCache, !unq)))
	}
	kind := -1
	var sent *http.Response
	var vo *vxOriginRespT
	vstatus := 0
	v304NoStore := false
	w.origin.script = func(n int, r *http.Request) (*http.Response, error) {
		vxCover("hit/origin-contacted")
		// C18: only-if-cached never touches the network
		vxAssert(!q.onlyIfCached, "C18/origin-contacted-under-only-if-cached")
		vxAssert(!c09Must, "C09/origin-contacted-for-fresh-response")
		if !withOrigin {
			vxStop()
		}
		w.clk.advance()
		d := vxHTTPDate("v.date")
		vxAssume(vxIntRange("v.date.sec", -62135596800, 253402300799) != -62135596800)
		kind = kinds[vxChoice("origin.kind", len(kinds))]
		switch kind {
		case 0: // 304
			vstatus = 304
			// (the 304 may itself say no-store: then nothing of it is written back)
			if vxLabelOn("C06/") { // (only the C06 runs pay for this case split)
				v304NoStore = vxBool("v.304.no-store")
			}
			sent = &http.Response{StatusCode: 304, Header: http.Header{"Date": []string{d},
				"Cache-Control": []string{vxSel(v304NoStore, "no-store", "xo-store")}}, Body: &vxBodyT{tag: 1}}
		case 1: // full cacheable reply
			vstatus = 200
			sent = &http.Response{StatusCode: 200, Header: http.Header{"Date": []string{d}, "Cache-Control": []string{"max-age=60"}, vxTagHeader: []string{"origin"}}, Body: &vxBodyT{tag: 2}}
		case 4: // arbitrary full reply (any final status but 304, any directives, body may fail)
			vo = vxOriginResp("vo", 200, 599)
			vxAssume(vo.status != 304)
			vstatus = vo.status
			sent = vo.resp
		case 2: // error status, possibly with its own stale-if-error
			vstatus = vxInt("v.status", 400, 599)
			sent = &http.Response{StatusCode: vstatus, Header: http.Header{"Date": []string{d}, vxTagHeader: []string{"origin"},
				"Cache-Control": []string{vxSel(vxBool("v.sie"), "stale-if-error", "xtale-if-error") + "=" + vxDelta("v.sie", vxND)}}, Body: &vxBodyT{tag: 3}}
		default:
			return nil, vxErrOrigin
		}
		return sent, nil
	}

	resp, err, panicked := vxRoundTrip(w.rt, req)
	vxAssert(!panicked, "C10/panic")
	if panicked {
		return
	}
	calls := len(w.origin.calls)
	first, last := vxTime(vxClockReading(0)), vxTime(vxClockReading(w.clk.phase))

	ageLo, _ := vxSpecAge(x, first)
	_, ageHiLast := vxSpecAge(x, last)
	ageLoLast, _ := vxSpecAge(x, last)
	lifeLo, life := vxSpecLifetime2(x, x.cc.maxAge, x.cc.maxAgeStr, x.cc.public)
	fresh := vxZLess(ageLo, life) // fresh under some admitted reading

	maxStaleOK := q.maxStaleBare
	if !q.maxStaleBare {
		_, h, ok := vxDeltaSpec(q.maxStaleStr)
		maxStaleOK = vxAnd(ok, vxZLess(ageLo, vxZAdd(life, vxZMulK(h, vxSecond))))
	}
	maxStaleOK = vxAnd(maxStaleOK, q.maxStale)
	_, swrHi, swrValid := vxDeltaSpec(x.cc.swrStr)
	swrOK := vxAnd(vxAnd(x.cc.swr, swrValid), vxZLess(ageLo, vxZAdd(life, vxZMulK(swrHi, vxSecond))))

	vxAssert((resp != nil) != (err != nil), "C10/exactly-one-of-response-and-error")
	vxLog("resp", resp != nil, "err", err, "calls", calls)
	status := ""
	fromStore := false
	if resp != nil {
		status = vxStatusOf(resp)
		fromStore = vxTagOf(resp) == "stored"
	}
	if resp != nil && calls == 0 && fromStore {
		vxCover("hit/served-without-origin")
		// C01: only a fresh response, or staleness explicitly permitted
		vxAssert(vxOr(vxOr(fresh, maxStaleOK), vxOr(q.onlyIfCached, swrOK)), "C01/served-stale-without-permission")
	}
	if calls == 0 && resp != nil && !fromStore {
		vxCover("hit/504")
		vxAssert(vxAnd(q.onlyIfCached, resp.StatusCode == 504), "C18/504-only-under-only-if-cached")
	}

	// ---- C06: what must not be stored never reaches the store (validation path)
	if w.conn.count("set") > 0 {
		vxCover("hit/stored")
		vxAssert(calls >= 1 && kind != 3, "C06/stored-without-origin-reply")
		vxAssert(!q.noStore, "C06/stored-under-request-no-store")
		vxAssert(!(kind == 0 && v304NoStore), "C06/stored-under-no-store-on-304")
		if vo != nil {
			vxAssert(!vxMustNotStore(vo, q.noStore, true), "C06/stored-what-must-not-be-stored")
		}
	}

	// ---- C02: responses that require validation are never reused unvalidated
	respNoCacheUnq := vxAnd(x.cc.noCache, !x.cc.noCacheQualified)
	_, qMaxHi, qMaxOK := vxDeltaSpec(q.maxAgeStr)
	exceeds := vxAnd(vxAnd(vxAnd(q.maxAge, qMaxOK), !q.maxStale), vxZLess(vxZMulK(qMaxHi, vxSecond), ageLo))
	strict := vxOr(vxOr(respNoCacheUnq, q.noCache), vxAnd(!fresh, x.cc.mustReval))
	validated := calls >= 1 && kind == 0
	if fromStore {
		vxAssert(vxImplies(strict, validated), "C02/reused-unvalidated-despite-no-cache-or-must-revalidate")
		failure := vxOr(kind == 3, vxAnd(kind == 2 || kind == 4, vxIsSIEStatus(vstatus)))
		vxAssert(vxImplies(exceeds, vxOr(validated, vxAnd(calls >= 1, failure))), "C02/reused-unvalidated-despite-request-max-age")
		if !validated && x.cc.noCacheQualified { // served without (successful) validation: hit, max-stale, SWR, stale-if-error
			_, has := resp.Header["X-A"]
			vxAssert(vxImplies(x.cc.noCache, !has), "C02/qualified-no-cache-field-replayed")
		}
	}
	if calls >= 1 {
		vr := w.origin.calls[0]
		vxAssert(calls == 1, "C02/more-than-one-origin-call")
		vxAssert((vr.Header.Get("If-None-Match") == "\"v1\"") == x.hasETag, "C02/if-none-match-from-stored-etag")
		vxAssert((vr.Header.Get("If-Modified-Since") != "") == x.hasLM, "C02/if-modified-since-from-stored-last-modified")
		vxAssert(vr.Header.Get("Cache-Control") == qs && vr.Method == "GET", "C02/validation-request-is-client-request-plus-validators")
		if !validated && !fromStore {
			// the origin's own answer (or its failure) is returned
			if kind == 3 {
				vxAssert(resp == nil && err == vxErrOrigin, "C02/origin-failure-returned")
			} else {
				vxAssert(resp == sent, "C02/origin-answer-returned")
			}
		}
	}
	_, hasINM := reqHdr["If-None-Match"]
	_, hasIMS := reqHdr["If-Modified-Since"]
	vxAssert(len(reqHdr) == 1 && !hasINM && !hasIMS && req.Method == "GET" && len(req.Header) == 1, "C02/client-request-modified")

	// ---- C09 (see c09Must above)
	vxAssert(vxImplies(c09Must, fromStore && calls == 0), "C09/fresh-response-not-served-from-store")

	// ---- C13: stale-if-error window
	if calls >= 1 && kind >= 2 {
		failure := vxOr(kind == 3, vxIsSIEStatus(vstatus))
		if kind == 4 {
			// an arbitrary reply may carry stale-if-error etc.; the error-reply placement is covered by kind 2
		}
		_, sieHiR, sieOKR := vxDeltaSpec(x.cc.sieStr)
		sieLoR, _, _ := vxDeltaSpec(x.cc.sieStr)
		_, sieHiQ, sieOKQ := vxDeltaSpec(q.sieStr)
		sieLoQ, _, _ := vxDeltaSpec(q.sieStr)
		onResp, onReq := vxAnd(x.cc.sie, sieOKR), vxAnd(q.sie, sieOKQ)
		// definitely inside the window (judged at the last clock reading, smallest reading of N)
		insideR := vxAnd(onResp, vxZLess(vxZSub(ageHiLast, lifeLo), vxZMulK(sieLoR, vxSecond)))
		insideQ := vxAnd(onReq, vxZLess(vxZSub(ageHiLast, lifeLo), vxZMulK(sieLoQ, vxSecond)))
		// definitely outside (judged at the first reading, largest reading of N)
		outsideR := vxOr(!onResp, vxZLess(vxZMulK(sieHiR, vxSecond), vxZSub(ageLo, life)))
		outsideQ := vxOr(!onReq, vxZLess(vxZMulK(sieHiQ, vxSecond), vxZSub(ageLo, life)))
		blocked := vxOr(vxOr(x.cc.mustReval, respNoCacheUnq), q.noCache)
		stale := !fresh
		vxLog("C13 failure", failure, "stale", stale, "insideR", insideR, "insideQ", insideQ, "blocked", blocked, "fromStore", fromStore, "ageHiLast", ageHiLast.b, "life", life.b, "sieLoR", sieLoR.b, "onResp", onResp)
		vxCover("hit/validation-failed")
		// (with a request max-age the reference lifetime is open to interpretation: not asserted)
		vxAssert(vxImplies(vxAnd(failure, vxAnd(vxAnd(vxAnd(stale, vxOr(insideR, insideQ)), !blocked), !q.maxAge)), fromStore), "C13/stored-response-not-served-inside-window")
		if fromStore {
			vxAssert(status == "STALE", "C13/served-on-error-not-marked-stale")
		}
		vxAssert(vxImplies(vxOr(vxOr(!failure, blocked), vxAnd(outsideR, outsideQ)), !fromStore), "C13/stored-response-served-outside-window")
	}

	// ---- C11: Age and status fields tell the truth
	if resp != nil {
		vxAssert(len(resp.Header[CacheStatusHeader]) == 1, "C11/exactly-one-status-value")
		fc := resp.Header.Get("X-From-Cache")
		vxAssert((fc == "1") == (status == "HIT" || status == "STALE" || status == "REVALIDATED"), "C11/x-from-cache-matches-status")
		vxAssert(fc == "1" || fc == "", "C11/x-from-cache-value")
		switch {
		case fromStore && validated:
			vxAssert(status == "REVALIDATED", "C11/status-after-304")
		case fromStore && calls == 0:
			vxAssert(status == "HIT" || status == "STALE", "C11/status-served-from-store")
			vxAssert(vxImplies(vxAnd(vxZLess(ageHiLast, lifeLo), !q.maxAge && !q.minFresh), status == "HIT"), "C11/fresh-hit-marked-hit")
			vxAssert(vxImplies(vxAnd(swrOK, !vxOr(vxOr(fresh, maxStaleOK), q.onlyIfCached)), status == "STALE"), "C11/swr-marked-stale")
		case fromStore:
			vxAssert(status == "STALE", "C11/status-stale-if-error")
		default:
			vxAssert(status == "MISS" || status == "BYPASS", "C11/status-of-origin-reply")
		}
		if fromStore && !validated {
			ages := resp.Header["Age"]
			vxLog("ages", ages, "status", status, "hdr", resp.Header)
			vxAssert(len(ages) == 1, "C11/exactly-one-age-value")
			if len(ages) == 1 {
				a, ok := vxAtoi(ages[0])
				vxAssert(ok, "C11/age-not-a-number")
				{
					za := vxZMulK(vxZOf(a), vxSecond)
					// the age at the moment the response is handed over (after a failed
					// validation that is the last clock reading, not the first)
					lo := vxZSub(ageLoLast, vxZOf(2*vxSecond))
					hi := vxZAdd(ageHiLast, vxZOf(2*vxSecond))
					// a saturated age may be reported as any value >= 2^31 s
					big := vxZOf(vxTwo31 * vxSecond)
					inRange := vxAnd(vxZLeq(lo, za), vxZLeq(za, hi))
					saturated := vxAnd(vxZLeq(big, ageLoLast), vxZLeq(big, za))
					vxAssert(vxOr(inRange, saturated), "C11/age-header-wrong")
				}
			}
		}
	}
	if calls == 0 {
		// background work started by the exchange (stale-while-revalidate) runs now: its
		// origin call reaches the assertions of the origin script (C18)
		vxRunAll()
		vxAssert(vxBgPanics() == 0, "C10/background-panic")
	}
}

func vxIsSIEStatus(c int) bool {
	return vxOr(vxOr(c == 500, c == 502), vxOr(c == 503, c == 504))
}

// vxRoundTrip calls the transport and reports a panic instead of propagating it.
func vxRoundTrip(rt http.RoundTripper, req *http.Request) (resp *http.Response, err error, panicked bool) {
	defer func() {
		if r := recover(); r != nil {
			if _, stop := r.(vxAssumeFailed); stop {
				panic(r)
			}
			panicked = true
		}
	}()
	resp, err = rt.RoundTrip(req)
	return
}

func VxB_HitNoOrigin() { vxHitStep(false, nil) }
func VxB_HitStep()     { vxHitStep(true, []int{0, 1, 2, 3}) }

// VxB_HitStore: the validation request is answered by an arbitrary full reply or by a
// 304 (with or without no-store): C06, C19.
func VxB_HitStore() { vxHitStep(true, []int{4, 0}) }

// VxB_HitFail: the validation fails (error status or transport error): C13.
func VxB_HitFail() { vxHitStep(true, []int{2, 3}) }

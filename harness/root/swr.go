package httpcache

import (
	"context"
	"net/http"
	"time"

	"github.com/bartventer/httpcache/internal"
)

// vxCtxT: the context the harness substitutes for context.WithTimeout under symgo: the
// timer is a goroutine that fires once every other goroutine is blocked (virtual time
// advances only then - the semantics of testing/synctest, in which replays run), unless
// it is cancelled first.  A slow origin is modelled explicitly by the origin stub.
type vxCtxT struct {
	parent context.Context
	done   chan struct{}
	err    error
	d      time.Duration
}

func (c *vxCtxT) Deadline() (time.Time, bool) { return time.Time{}, false }
func (c *vxCtxT) Done() <-chan struct{}       { return c.done }
func (c *vxCtxT) Err() error                  { return c.err }
func (c *vxCtxT) Value(k any) any             { return c.parent.Value(k) }
func (c *vxCtxT) fire(err error) {
	if c.err == nil {
		c.err = err
		close(c.done)
	}
}

var vxLastCtx *vxCtxT

// vxNoTimer: the timeout never fires (harnesses that are not about timing).
var vxNoTimer bool

func vxWithTimeout(parent context.Context, d time.Duration) (context.Context, context.CancelFunc) {
	c := &vxCtxT{parent: parent, done: make(chan struct{}), d: d}
	vxLastCtx = c
	if !vxNoTimer {
		go func() {
			vxIdleWait() // the timeout elapses only while everything else is blocked
			c.fire(context.DeadlineExceeded)
		}()
	}
	return c, func() { c.fire(context.Canceled) }
}

func init() { vxReplace["context.WithTimeout"] = vxWithTimeout }

// vxTimeoutOf: the timeout a context was created with (natively: time left until the
// deadline, exact inside the replay's synctest bubble).
func vxTimeoutOf(ctx context.Context) (time.Duration, bool) {
	if c, ok := ctx.(*vxCtxT); ok {
		return c.d, true
	}
	dl, ok := ctx.Deadline()
	return time.Until(dl), ok
}

func vxCloneHeader(h http.Header) http.Header { return h.Clone() }

func vxSameHeader(a, b http.Header) bool {
	if len(a) != len(b) {
		return false
	}
	for k, va := range a {
		vb, ok := b[k]
		if !ok || len(va) != len(vb) {
			return false
		}
		for i := range va {
			if va[i] != vb[i] {
				return false
			}
		}
	}
	return true
}

// VxB_SWR: a stale response inside its stale-while-revalidate window (C20, C16, C08, C18).
func VxB_SWR() {
	vxND = vxBoundsB()
	T := time.Duration(vxInt64("swr.timeout"))
	w := vxNewWorld(T)
	// the stale entry is variant "a" of a URI that may have a second, older variant "b"
	// (which then sorts first in the index)
	id, idB := vxVariantID("a"), vxVariantID("b")
	twoVariants := vxChoice("variants", 2) == 1
	hasETag, hasLM := vxBool("e.has-etag"), vxBool("e.has-lm")
	h := http.Header{"Date": []string{vxHTTPDate("e.date")}, "Cache-Control": []string{"max-age=60, stale-while-revalidate=600"},
		"Vary": []string{"X-V"}, vxTagHeader: []string{"stored"}, "X-Rev": []string{"1"}}
	h[vxHdrKey(hasETag, "Etag")] = []string{"\"v1\""}
	h[vxHdrKey(hasLM, "Last-Modified")] = []string{"Thu, 01 Jan 1970 00:00:00 GMT"}
	rcv := vxTimeSec("e.date") // received when generated, no Age, no delay
	e := &vxResponse{ID: id, Data: &http.Response{StatusCode: 200, Header: h, Body: &vxBodyT{tag: 0}}, RequestedAt: rcv, ReceivedAt: rcv}
	_ = w.rt.cache.Set(id, e)
	refs0 := internal.ResponseRefs{&internal.ResponseRef{ResponseID: id, Vary: "X-V", VaryResolved: map[string]string{"X-V": "a"}, ReceivedAt: rcv}}
	if twoVariants {
		older := rcv.Add(-time.Hour)
		eb := &vxResponse{ID: idB, Data: &http.Response{StatusCode: 200, Header: http.Header{"Date": []string{older.UTC().Format(http.TimeFormat)},
			"Cache-Control": []string{"max-age=999999999"}, "Vary": []string{"X-V"}, vxTagHeader: []string{"stored-b"}}, Body: &vxBodyT{tag: 0}}, RequestedAt: older, ReceivedAt: older}
		_ = w.rt.cache.Set(idB, eb)
		refs0 = append(refs0, &internal.ResponseRef{ResponseID: idB, Vary: "X-V", VaryResolved: map[string]string{"X-V": "b"}, ReceivedAt: older})
	}
	_ = w.rt.cache.SetRefs(vxURLKey, refs0)
	w.conn.log = nil
	vxClkFloor, vxClkHasFloor = rcv, true
	w.clk.start()
	now := vxTime(vxClockReading(0))
	age := vxZSub(vxZTime(now), vxZTime(rcv))
	inWindow := vxAnd(vxZLeq(vxZOf(61*vxSecond), age), vxZLeq(age, vxZOf(659*vxSecond)))

	reqHdr := http.Header{"X-Client": []string{"c"}, "X-V": []string{"a"}}
	req := vxGET(reqHdr)

	okind := vxChoice("bg.kind", 5)
	slow := vxChoice("bg.slow", 2) == 1
	// the entry may be evicted (by another process, an unsafe request, a cleaner) between
	// the foreground read and the background goroutine's own read
	// or the request carries no-store: whatever the background exchange brings is not stored
	scen := vxChoice("bg.scenario", 3)
	evicted, reqNoStore := scen == 1, scen == 2
	if evicted {
		w.conn.evictKey, w.conn.evictAfter = id, 2
	}
	if reqNoStore {
		reqHdr["Cache-Control"] = []string{"no-store"}
	}
	timeoutSeen := time.Duration(-1)
	var bgReq *http.Request
	w.origin.script = func(n int, r *http.Request) (*http.Response, error) {
		bgReq = r
		if d, ok := vxTimeoutOf(r.Context()); ok {
			timeoutSeen = d
		}
		w.clk.advance()
		d := vxHTTPDate("v.date")
		vxAssume(vxIntRange("v.date.sec", 0, 4102444800) > 0)
		if slow && r.Context().Done() != nil {
			<-r.Context().Done() // an origin slower than the timeout that ignores cancellation
		}
		switch okind {
		case 0:
			return &http.Response{StatusCode: 304, Header: http.Header{"Date": []string{d}, "X-Rev": []string{"2"}, "Cache-Control": []string{"max-age=60, stale-while-revalidate=600"}}, Body: &vxBodyT{tag: 1}}, nil
		case 1:
			return &http.Response{StatusCode: 200, Header: http.Header{"Date": []string{d}, "Cache-Control": []string{"max-age=60"}, "Vary": []string{"X-V"}, vxTagHeader: []string{"new"}}, Body: &vxBodyT{tag: 2}}, nil
		case 2:
			return &http.Response{StatusCode: 503, Header: http.Header{"Date": []string{d}, vxTagHeader: []string{"origin"}}, Body: &vxBodyT{tag: 3}}, nil
		case 3:
			return nil, vxErrOrigin
		}
		// never answers: returns only when the request is cancelled (a foreground request
		// without deadline would legitimately wait for ever: answer with an error there)
		if r.Context().Done() == nil {
			return nil, vxErrOrigin
		}
		<-r.Context().Done()
		return nil, r.Context().Err()
	}

	resp, err, panicked := vxRoundTrip(w.rt, req)
	vxAssert(!panicked, "C10/panic")
	if panicked || err != nil || resp == nil {
		return
	}
	callsAtReturn := len(w.origin.calls)
	status := vxStatusOf(resp)
	// the caller gets the stale response at once
	vxAssert(vxImplies(inWindow, vxTagOf(resp) == "stored" && status == "STALE" && callsAtReturn == 0), "C20/stale-response-not-served-at-once")
	if !(vxTagOf(resp) == "stored" && status == "STALE" && callsAtReturn == 0) {
		return
	}
	vxCover("swr/served-stale")
	snapshot := vxCloneHeader(resp.Header)
	resp.Header.Set("X-Caller-Owned", "1") // the caller owns the response now
	snapshot.Set("X-Caller-Owned", "1")
	req.URL.Path = "/reused-by-the-caller" // ... and its request again (RoundTripper contract)

	vxRunAll() // background work runs to completion (or blocks for ever)

	vxAssert(vxBgPanics() == 0, "C10/background-panic")
	vxAssert(len(w.origin.calls) == 1 || (evicted && len(w.origin.calls) == 0), "C20/exactly-one-revalidation-request")
	vxAssert(vxLiveGoroutines() == 0, "C20/goroutine-outlives-background-request")
	if bgReq != nil {
		vxAssert((bgReq.Header.Get("If-None-Match") == "\"v1\"") == hasETag, "C20/revalidation-conditional-on-etag")
		vxAssert((bgReq.Header.Get("If-Modified-Since") != "") == hasLM, "C20/revalidation-conditional-on-last-modified")
		vxAssert(bgReq.Header.Get("X-Client") == "c", "C20/revalidation-carries-client-headers")
		vxAssert(bgReq.URL.Path == "/p", "C16/background-request-shares-the-callers-url")
		want := T
		if T <= 0 {
			want = 5 * time.Second
		}
		vxAssert(timeoutSeen == want, "C20/background-timeout-is-the-configured-one")
	}
	// C16: the response handed to the caller and the caller's request are never touched again
	vxAssert(vxSameHeader(resp.Header, snapshot), "C16/returned-response-modified-after-return")
	_, inm := reqHdr["If-None-Match"]
	_, ims := reqHdr["If-Modified-Since"]
	nreq := 2
	if reqNoStore {
		nreq = 3
	}
	vxAssert(len(reqHdr) == nreq && !inm && !ims, "C16/caller-request-modified")
	if reqNoStore {
		vxCover("swr/request-no-store")
		vxAssert(w.conn.count("set") == 0, "C06/stored-what-must-not-be-stored")
		return
	}

	if evicted {
		vxCover("swr/evicted-in-flight")
		return // nothing left to freshen: whatever the background work did, it did not touch the caller's objects
	}
	// C08: the background result is written back (unless the timeout elapsed first)
	refs, _ := w.rt.cache.GetRefs(vxURLKey)
	if vxLastCtx != nil && vxLastCtx.err == context.DeadlineExceeded {
		vxCover("swr/timed-out")
		return
	}
	switch okind {
	case 0: // 304 freshens
		if len(w.origin.calls) == 1 {
			ent, gerr := w.rt.cache.Get(id, req)
			vxAssert(gerr == nil && ent != nil, "C08/entry-lost-after-304")
			if gerr == nil && ent != nil {
				vxAssert(ent.Data.Header.Get("X-Rev") == "2", "C08/304-fields-not-written-back")
				vxAssert(vxTagOf(ent.Data) == "stored", "C08/body-replaced-by-304")
				vxAssert(len(ent.Data.Header[CacheStatusHeader]) == 0, "C08/cache-status-header-persisted")
			}
		}
	case 1: // full reply replaces
		if len(w.origin.calls) == 1 && len(refs) > 0 {
			ent, gerr := w.rt.cache.Get(id, req)
			vxAssert(gerr == nil && ent != nil && vxTagOf(ent.Data) == "new", "C08/full-reply-not-stored")
		}
	}
	want := 1
	if twoVariants {
		want = 2
		entB, errB := w.rt.cache.Get(idB, req)
		vxAssert(errB == nil && entB != nil && vxTagOf(entB.Data) == "stored-b", "C08/other-variant-lost")
		inIndex := false
		for _, rf := range refs {
			if rf.ResponseID == idB {
				inIndex = true
			}
		}
		vxAssert(inIndex, "C08/other-variant-dropped-from-index")
	}
	vxAssert(len(refs) == want, "C19/index-size-changed-by-background-revalidation")
}

package httpcache

import (
	"net/http"

	"github.com/bartventer/httpcache/internal"
)

// vxOriginCC: the directives of an origin response, lazily present.
type vxOriginCC struct {
	noStore, maxAge, public, mustUnderstand, private bool
	maxAgeStr                                         string
}

type vxOriginRespT struct {
	cc         *vxOriginCC
	status     int
	hasExpires bool
	hasLM      bool
	bodyFail   bool
	resp       *http.Response
}

// vxOriginResp builds an arbitrary origin response: symbolic status, directives,
// Expires presence, and a body that may fail to be read.
func vxOriginResp(p string, lo, hi int) *vxOriginRespT {
	o := &vxOriginRespT{cc: &vxOriginCC{}}
	c := o.cc
	c.noStore = vxBool(p + ".no-store")
	c.maxAge, c.maxAgeStr = vxBool(p+".max-age"), vxDelta(p+".max-age", vxND)
	c.public = vxBool(p + ".public")
	c.mustUnderstand = vxBool(p + ".must-understand")
	c.private = vxBool(p + ".private")
	ccs := vxSel(c.noStore, "no-store", "xo-store") +
		", " + vxSel(c.maxAge, "max-age", "xax-age") + "=" + c.maxAgeStr +
		", " + vxSel(c.public, "public", "xublic") +
		", " + vxSel(c.mustUnderstand, "must-understand", "xust-understand") +
		", " + vxSel(c.private, "private", "xrivate")
	o.status = vxInt(p+".status", lo, hi)
	o.hasExpires = vxBool(p + ".has-expires")
	o.bodyFail = vxBool(p + ".body-fail")
	h := http.Header{
		"Date":          []string{vxHTTPDate(p + ".date")},
		"Cache-Control": []string{ccs},
		vxTagHeader:     []string{"origin"},
	}
	h[vxHdrKey(o.hasExpires, "Expires")] = []string{vxHTTPDateOpt(p + ".expires")}
	// a validator says nothing about storability (RFC 9111 section 3)
	o.hasLM = vxBool(p + ".has-lm")
	h[vxHdrKey(o.hasLM, "Last-Modified")] = []string{"Thu, 01 Jan 1970 00:00:00 GMT"}
	o.resp = &http.Response{StatusCode: o.status, Header: h, Body: &vxBodyT{tag: 5, fail: o.bodyFail}}
	return o
}

// RFC 9110 §15: status codes with defined semantics (IANA registry, final codes).
func vxRegisteredStatus(c int) bool {
	r := false
	for _, k := range [...]int{200, 201, 202, 203, 204, 205, 206, 207, 208, 226, 300, 301, 302, 303, 304, 305, 307, 308,
		400, 401, 402, 403, 404, 405, 406, 407, 408, 409, 410, 411, 412, 413, 414, 415, 416, 417, 418, 421, 422, 423, 424, 425, 426, 428, 429, 431, 451,
		500, 501, 502, 503, 504, 505, 506, 507, 508, 510, 511} {
		r = vxOr(r, c == k)
	}
	return r
}

// vxMustNotStore: the conditions under which C06 forbids storing anything of the response.
func vxMustNotStore(o *vxOriginRespT, reqNoStore bool, plainGET bool) bool {
	s := o.status
	bad := vxOr(o.cc.noStore, reqNoStore)
	bad = vxOr(bad, !plainGET)
	bad = vxOr(bad, vxOr(s < 200, vxOr(s == 206, s == 304)))
	bad = vxOr(bad, vxAnd(o.cc.mustUnderstand, !vxRegisteredStatus(s)))
	noExplicit := vxAnd(vxAnd(!o.cc.maxAge, !o.hasExpires), !o.cc.public)
	bad = vxOr(bad, vxAnd(noExplicit, !vxHeuristicStatus(s)))
	bad = vxOr(bad, o.bodyFail)
	return bad
}

var vxMethods = [...]string{"GET", "HEAD", "POST", "PUT", "DELETE", "PATCH", "OPTIONS", "PROPPATCH", "BREW"}

// VxB_MissStep: one exchange on an empty store (miss path and bypass path): C06, C18, C10, C11.
func VxB_MissStep() {
	vxND = vxBoundsB()
	w := vxNewWorld(0)
	w.clk.start()
	// store state: empty, or only another variant of the URI is stored
	otherVariant := vxChoice("store.other-variant", 2) == 1
	if otherVariant {
		idB := vxVariantID("b")
		_ = w.rt.cache.Set(idB, &vxResponse{ID: idB, Data: &http.Response{StatusCode: 200, Header: http.Header{
			"Date": []string{"Thu, 01 Jan 1970 00:00:00 GMT"}, "Cache-Control": []string{"max-age=999999999"}, "Vary": []string{"X-V"}, vxTagHeader: []string{"stored-b"}},
			Body: &vxBodyT{tag: 0}}})
		_ = w.rt.cache.SetRefs(vxURLKey, internal.ResponseRefs{&internal.ResponseRef{ResponseID: idB, Vary: "X-V", VaryResolved: map[string]string{"X-V": "b"}}})
		w.conn.log = nil
	}
	q, qs := vxReqCCBuild("req")
	hdr := http.Header{"Cache-Control": []string{qs}, "X-V": []string{"a"}}
	hasRange := vxBool("req.range")
	hdr[vxHdrKey(hasRange, "Range")] = []string{"bytes=0-1"}
	req := vxGET(hdr)
	req.Method = vxMethods[vxChoice("req.method", len(vxMethods))]
	plainGET := vxAnd(req.Method == "GET", !hasRange)

	var o *vxOriginRespT
	originErr := false
	w.origin.script = func(n int, r *http.Request) (*http.Response, error) {
		vxCover("miss/origin-contacted")
		vxAssert(!q.onlyIfCached, "C18/origin-contacted-under-only-if-cached")
		w.clk.advance()
		if vxChoice("origin.err", 2) == 1 {
			originErr = true
			return nil, vxErrOrigin
		}
		o = vxOriginResp("o", 100, 599)
		return o.resp, nil
	}
	resp, err, panicked := vxRoundTrip(w.rt, req)
	vxAssert(!panicked, "C10/panic")
	if panicked {
		return
	}
	calls := len(w.origin.calls)
	vxAssert((resp != nil) != (err != nil), "C10/exactly-one-of-response-and-error")
	vxAssert(vxImplies(err != nil, originErr), "C10/error-only-from-origin")
	sets := w.conn.count("set")
	if sets > 0 {
		vxCover("miss/stored")
		vxAssert(o != nil, "C06/stored-without-origin-response")
		if o != nil {
			vxAssert(!vxMustNotStore(o, q.noStore, plainGET), "C06/stored-what-must-not-be-stored")
		}
	} else if o != nil {
		vxCover("miss/not-stored")
	}
	if resp != nil {
		vxAssert(vxTagOf(resp) != "stored-b", "C04/other-variant-served")
		st := vxStatusOf(resp)
		vxAssert(len(resp.Header[CacheStatusHeader]) == 1, "C11/exactly-one-status-value")
		vxAssert(st == "MISS" || st == "BYPASS", "C11/status-of-origin-reply")
		vxAssert(resp.Header.Get("X-From-Cache") == "", "C11/x-from-cache-matches-status")
		if calls == 0 {
			vxCover("miss/504")
			vxAssert(vxAnd(q.onlyIfCached, resp.StatusCode == 504), "C18/504-only-under-only-if-cached")
		} else if o != nil {
			vxAssert(resp == o.resp, "C10/origin-response-returned")
		}
	}
	vxAssert(calls <= 1, "C10/at-most-one-origin-call")
}

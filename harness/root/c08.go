package httpcache

import (
	"net/http"

	"github.com/bartventer/httpcache/internal"
)

// vxVariantID: the store id of the variant selected by X-V = v (real key derivation).
func vxVariantID(v string) string {
	return internal.NewVaryKeyer().VaryKey(vxURLKey, map[string]string{"X-V": v})
}

// VxB_Revalidate2: a stale variant is validated in the foreground, then requested again
// within the new lifetime (C08); a second variant of the URI must survive (C08, C19).
func VxB_Revalidate2() {
	vxND = vxBoundsB()
	w := vxNewWorld(0)
	idA, idB := vxVariantID("a"), vxVariantID("b")
	rcv := vxTimeSec("e.date")
	mk := func(id, v, tag string) *vxResponse {
		return &vxResponse{ID: id, Data: &http.Response{StatusCode: 200, Header: http.Header{
			"Date": []string{vxHTTPDate("e.date")}, "Cache-Control": []string{"max-age=60"}, "Vary": []string{"X-V"},
			"Etag": []string{"\"" + v + "1\""}, "Content-Length": []string{"6"}, vxTagHeader: []string{tag}, "X-Rev": []string{"1"}},
			Body: &vxBodyT{tag: 0}}, RequestedAt: rcv, ReceivedAt: rcv}
	}
	_ = w.rt.cache.Set(idA, mk(idA, "a", "stored-a"))
	_ = w.rt.cache.Set(idB, mk(idB, "b", "stored-b"))
	_ = w.rt.cache.SetRefs(vxURLKey, internal.ResponseRefs{
		&internal.ResponseRef{ResponseID: idA, Vary: "X-V", VaryResolved: map[string]string{"X-V": "a"}, ReceivedAt: rcv},
		&internal.ResponseRef{ResponseID: idB, Vary: "X-V", VaryResolved: map[string]string{"X-V": "b"}, ReceivedAt: rcv},
	})
	w.conn.log = nil
	vxClkFloor, vxClkHasFloor = rcv, true
	w.clk.start()
	t0 := vxTime(vxClockReading(0))
	vxAssume(vxZLess(vxZOf(61*vxSecond), vxZSub(vxZTime(t0), vxZTime(rcv)))) // variant a is stale

	okind := vxChoice("v.kind", 2)
	w.origin.script = func(n int, r *http.Request) (*http.Response, error) {
		w.clk.advance()
		t1 := vxTime(vxClockReading(w.clk.phase))
		d := t1.UTC().Format(http.TimeFormat) // the origin's clock agrees with ours
		if okind == 0 {
			// (Cache-Control and X-Multi arrive on two field lines each, RFC 9110 section 5.3)
			return &http.Response{StatusCode: 304, Header: http.Header{"Date": []string{d}, "Cache-Control": []string{"private", "max-age=100"},
				"X-Multi": []string{"m1", "m2"}, "X-Rev": []string{"2"}, "Etag": []string{"\"a2\""}, "Content-Length": []string{"999"}, "Connection": []string{"X-Hop"}, "X-Hop": []string{"h"}},
				Body: &vxBodyT{tag: 1}}, nil
		}
		return &http.Response{StatusCode: 200, Header: http.Header{"Date": []string{d}, "Cache-Control": []string{"max-age=100"}, "Vary": []string{"X-V"},
			"Etag": []string{"\"a2\""}, vxTagHeader: []string{"new-a"}, "X-Rev": []string{"2"}}, Body: &vxBodyT{tag: 2}}, nil
	}
	get := func(v string) *http.Request { return vxGET(http.Header{"X-V": []string{v}}) }

	r1, err, panicked := vxRoundTrip(w.rt, get("a"))
	vxAssert(!panicked, "C10/panic")
	if panicked || err != nil || r1 == nil {
		return
	}
	vxAssert(len(w.origin.calls) == 1, "C08/stale-variant-not-validated")
	if len(w.origin.calls) != 1 {
		return
	}
	t1 := vxTime(vxClockReading(w.clk.phase))

	// the other variant is still there
	refs, _ := w.rt.cache.GetRefs(vxURLKey)
	vxAssert(len(refs) == 2, "C08/variant-index-size-changed-by-validation")
	entB, errB := w.rt.cache.Get(idB, get("b"))
	vxAssert(errB == nil && entB != nil && vxTagOf(entB.Data) == "stored-b", "C08/other-variant-lost")

	// a follow-up request inside the new lifetime (100 s from the validation), by more than a second
	w.clk.advance()
	t2 := vxTime(vxClockReading(w.clk.phase))
	el := vxZSub(vxZTime(t2), vxZTime(t1))
	// (the response delay of the validation counts towards the age: measure from its start)
	sinceStart := vxZSub(vxZTime(t2), vxZTime(t0))
	vxAssume(vxZLeq(sinceStart, vxZOf(98*vxSecond)))
	r2, err2, panicked2 := vxRoundTrip(w.rt, get("a"))
	vxAssert(!panicked2, "C10/panic")
	if panicked2 || err2 != nil || r2 == nil {
		return
	}
	vxCover("c08/follow-up")
	vxAssert(len(w.origin.calls) == 1, "C08/follow-up-contacted-origin")
	vxAssert(r2.Header.Get("X-Rev") == "2" && r2.Header.Get("Etag") == "\"a2\"", "C08/follow-up-shows-old-fields")
	if okind == 0 {
		vxAssert(vxTagOf(r2) == "stored-a", "C08/body-changed-by-304")
		vxAssert(r2.Header.Get("Content-Length") != "999", "C08/content-length-taken-from-304")
		vxAssert(r2.Header.Get("X-Hop") == "", "C08/hop-by-hop-field-stored")
		vxAssert(len(r2.Header["X-Multi"]) == 2 && len(r2.Header["Cache-Control"]) == 2, "C08/field-lines-of-304-lost")
	} else {
		vxAssert(vxTagOf(r2) == "new-a", "C08/replaced-representation-served")
	}
	// its age restarted from the validation
	if a, ok := vxAtoi(r2.Header.Get("Age")); ok {
		za := vxZMulK(vxZOf(a), vxSecond)
		vxAssert(vxAnd(vxZLeq(vxZSub(el, vxZOf(2*vxSecond)), za), vxZLeq(za, vxZAdd(sinceStart, vxZOf(2*vxSecond)))), "C08/age-not-restarted")
	} else {
		vxAssert(false, "C08/follow-up-without-age")
	}
}

package httpcache

import (
	"net/http"
	"time"

	"github.com/bartventer/httpcache/internal"
)

// VxLemma_SetAgeHeader: the Age field written by the real SetAgeHeader is the whole
// number of seconds of age.Value + elapsed (within one second for huge values).
func VxLemma_SetAgeHeader() {
	v := vxIntRange("age.value", 0, 1<<63-1)
	ts := vxTime("age.ts")
	clk := &vxClk{}
	vxAssume(!vxTime(vxClockReading(0)).Before(ts))
	resp := &http.Response{Header: http.Header{}}
	internal.SetAgeHeader(resp, clk, &internal.Age{Value: time.Duration(v), Timestamp: ts})
	now := vxTime(vxClockReading(0))
	ages := resp.Header["Age"]
	vxAssert(len(ages) == 1, "lemma/age-one-value")
	a, ok := vxAtoi(ages[0])
	vxAssert(ok, "lemma/age-number")
	el := vxZMax(vxZSub(vxZTime(now), vxZTime(ts)), vxZOf(0))
	exact := vxZAdd(vxZOf(v), el)
	sat := vxZMin(exact, vxZOf(1<<63-1))
	za := vxZMulK(vxZOf(a), vxSecond)
	vxCover("lemma/age")
	vxAssert(vxAnd(vxZLeq(vxZSub(sat, vxZOf(2*vxSecond)), za), vxZLeq(za, vxZAdd(sat, vxZOf(2*vxSecond)))), "lemma/age-header-is-seconds-of-age")
}

package httpcache

// Layer-B world (DESIGN.md §3): the real transport wired by newTransport around three
// environment stubs - a driver.Conn model with fault injection, a scripted origin and
// a symbolic clock.

import (
	"context"
	"log/slog"
	"net/http"
	"net/url"
	"time"

	"github.com/bartventer/httpcache/internal"
	"github.com/bartventer/httpcache/store/driver"
)

type vxResponse = internal.Response

const vxIntPkg = "github.com/bartventer/httpcache/internal."

var vxMergeable = []string{
	"(" + vxIntPkg + "RawDeltaSeconds).Value",
	vxIntPkg + "getDurationDirective",
	vxIntPkg + "hasToken",
	"(" + vxIntPkg + "CCRequestDirectives).MaxStale",
	"(" + vxIntPkg + "CCResponseDirectives).NoCache",
	"(" + vxIntPkg + "RawTime).Value",
	"(*" + vxIntPkg + "Response).ExpiresHeader",
	"(*" + vxIntPkg + "Response).DateHeader",
	vxIntPkg + "heuristicFreshness",
	vxIntPkg + "calculateCurrentAge",
	vxIntPkg + "canStoreResponse",
	vxIntPkg + "isStaleErrorAllowed",
	vxIntPkg + "isStatusUnderstood",
	vxIntPkg + "isHeuristicallyCacheableCode",
	vxIntPkg + "IsNonErrorStatus",
	"(*" + vxIntPkg + "staleIfErrorPolicy).CanStaleOnError",
}

// time.Time summaries (same as in package internal)
func VxSum_TimeSub()     { t, u := vxTime("a0"), vxTime("a1"); vxSummary("(time.Time).Sub", t.Sub(u)) }
func VxSum_TimeBefore()  { t, u := vxTime("a0"), vxTime("a1"); vxSummary("(time.Time).Before", t.Before(u)) }
func VxSum_TimeAfter()   { t, u := vxTime("a0"), vxTime("a1"); vxSummary("(time.Time).After", t.After(u)) }
func VxSum_TimeEqual()   { t, u := vxTime("a0"), vxTime("a1"); vxSummary("(time.Time).Equal", t.Equal(u)) }
func VxSum_TimeCompare() { t, u := vxTime("a0"), vxTime("a1"); vxSummary("(time.Time).Compare", t.Compare(u)) }
func VxSum_TimeIsZero()  { t := vxTime("a0"); vxSummary("(time.Time).IsZero", t.IsZero()) }
func VxSpec_TimeSub() {
	t, u := vxTime("a0"), vxTime("a1")
	vxSummary("(time.Time).Sub", time.Duration(vxZClampInt64(vxZSub(vxZTime(t), vxZTime(u)))))
}
func VxSpec_TimeBefore() {
	t, u := vxTime("a0"), vxTime("a1")
	vxSummary("(time.Time).Before", vxZLess(vxZTime(t), vxZTime(u)))
}
func VxSpec_TimeAfter() {
	t, u := vxTime("a0"), vxTime("a1")
	vxSummary("(time.Time).After", vxZLess(vxZTime(u), vxZTime(t)))
}
func VxSpec_TimeEqual() {
	t, u := vxTime("a0"), vxTime("a1")
	vxSummary("(time.Time).Equal", vxZEq(vxZTime(t), vxZTime(u)))
}
func VxSpec_TimeCompare() {
	t, u := vxTime("a0"), vxTime("a1")
	vxSummary("(time.Time).Compare", vxZCmp(vxZTime(t), vxZTime(u)))
}
func VxLemma_Time() {
	t, u := vxTime("t"), vxTime("u")
	zt, zu := vxZTime(t), vxZTime(u)
	vxCover("lemma/time")
	vxAssert(int64(t.Sub(u)) == vxZClampInt64(vxZSub(zt, zu)), "lemma/time.Sub")
	vxAssert(t.Before(u) == vxZLess(zt, zu), "lemma/time.Before")
	vxAssert(t.After(u) == vxZLess(zu, zt), "lemma/time.After")
	vxAssert(t.Equal(u) == vxZEq(zt, zu), "lemma/time.Equal")
	vxAssert(t.Compare(u) == vxZCmp(zt, zu), "lemma/time.Compare")
}

// ---- store model: driver.Conn over a map, every operation logged, faults optional ----

type vxOp struct {
	op  string // "get" "set" "del"
	key string
	err bool
}

type vxConnT struct {
	m      map[string][]byte
	log    []vxOp
	faults bool // when set, each operation may fail (symbolic)
	// eviction in flight: the evictAfter-th and later Gets of evictKey find it gone
	evictKey   string
	evictAfter int
	evictGets  int
}

var vxErrStore = &vxErrT{"vx: injected store fault"}

func (c *vxConnT) fault(op string) bool {
	if !c.faults {
		return false
	}
	return vxBool("fault." + op + "." + string(rune('0'+vxSeq("fault."+op))))
}

func (c *vxConnT) Get(key string) ([]byte, error) {
	if c.fault("get") {
		c.log = append(c.log, vxOp{"get", key, true})
		return nil, vxErrStore
	}
	if c.evictKey != "" && key == c.evictKey {
		c.evictGets++
		if c.evictGets >= c.evictAfter {
			delete(c.m, key)
		}
	}
	v, ok := c.m[key]
	c.log = append(c.log, vxOp{"get", key, !ok})
	if !ok {
		return nil, driver.ErrNotExist
	}
	return v, nil
}

func (c *vxConnT) Set(key string, v []byte) error {
	if c.fault("set") {
		c.log = append(c.log, vxOp{"set", key, true})
		return vxErrStore
	}
	c.m[key] = v
	c.log = append(c.log, vxOp{"set", key, false})
	return nil
}

func (c *vxConnT) Delete(key string) error {
	if c.fault("del") {
		c.log = append(c.log, vxOp{"del", key, true})
		return vxErrStore
	}
	_, ok := c.m[key]
	c.log = append(c.log, vxOp{"del", key, !ok})
	if !ok {
		return driver.ErrNotExist
	}
	delete(c.m, key)
	return nil
}

func (c *vxConnT) count(op string) int {
	n := 0
	for _, o := range c.log {
		if o.op == op {
			n++
		}
	}
	return n
}

// ---- origin ----

type vxOriginT struct {
	calls  []*http.Request
	script func(n int, req *http.Request) (*http.Response, error)
}

func (o *vxOriginT) RoundTrip(req *http.Request) (*http.Response, error) {
	o.calls = append(o.calls, req)
	resp, err := o.script(len(o.calls)-1, req)
	if resp != nil && resp.Header != nil && vxLabelOn("C11/") {
		// the origin may itself be a cache (stacked transports): its replies then carry
		// cache-status fields of their own, which say nothing about this cache.  In the runs
		// that check the C11 labels every origin reply carries such fields, with values this
		// cache never produces, so that a leaked or a forgotten field both show; the other
		// checks run the same harnesses with a plain origin.
		resp.Header["X-From-Cache"] = []string{"0"}
		resp.Header[internal.CacheStatusHeader] = []string{"UPSTREAM"}
	}
	return resp, err
}

// ---- logger ----

type vxLogH struct{ on bool }

func (h vxLogH) Enabled(context.Context, slog.Level) bool  { return h.on }
func (h vxLogH) Handle(context.Context, slog.Record) error { return nil }
func (h vxLogH) WithAttrs([]slog.Attr) slog.Handler        { return h }
func (h vxLogH) WithGroup(string) slog.Handler             { return h }

// ---- world ----

type vxWorld struct {
	rt     *transport
	conn   *vxConnT
	origin *vxOriginT
	clk    *vxClk
}

const vxURLKey = "http://h.test/p"

func vxNewWorld(swr time.Duration) *vxWorld {
	w := &vxWorld{conn: &vxConnT{m: map[string][]byte{}}, origin: &vxOriginT{}, clk: &vxClk{}}
	rt := newTransport(w.conn,
		WithUpstream(w.origin),
		optionFunc(func(r *transport) { r.clock = w.clk }),
		WithLogger(slog.New(vxLogH{})),
		WithSWRTimeout(swr),
	)
	w.rt = rt.(*transport)
	return w
}

func vxGET(h http.Header) *http.Request {
	return &http.Request{Method: "GET", URL: &url.URL{Scheme: "http", Host: "h.test", Path: "/p"}, Header: h, Host: "h.test"}
}

// seed stores entry x as the only variant of vxURLKey through the real responseCache.
func (w *vxWorld) seed(x *vxEntryT) {
	id := vxURLKey + "#0"
	x.e.ID = id
	_ = w.rt.cache.Set(id, x.e)
	_ = w.rt.cache.SetRefs(vxURLKey, internal.ResponseRefs{&internal.ResponseRef{ResponseID: id, ReceivedAt: x.date}})
	w.conn.log = nil
}

func vxStatusOf(r *http.Response) string { return r.Header.Get(internal.CacheStatusHeader) }

package httpcache

import (
	"context"
	"net/url"
	"log/slog"
	"net/http"
	"time"

	"github.com/bartventer/httpcache/internal"
)

// vxLogResolve: a handler that is enabled and resolves every attribute (so every
// LogValue method of the library runs), as a real handler would.
type vxLogResolve struct{ n *int }

func (h vxLogResolve) Enabled(context.Context, slog.Level) bool { return true }
func (h vxLogResolve) Handle(_ context.Context, r slog.Record) error {
	r.Attrs(func(a slog.Attr) bool {
		vxResolve(a.Value)
		*h.n++
		return true
	})
	return nil
}
func (h vxLogResolve) WithAttrs([]slog.Attr) slog.Handler { return h }
func (h vxLogResolve) WithGroup(string) slog.Handler      { return h }

func vxResolve(v slog.Value) {
	v = v.Resolve()
	if v.Kind() == slog.KindGroup {
		for _, a := range v.Group() {
			vxResolve(a.Value)
		}
	}
}

var vxReplace = map[string]any{
	"time.Now": func() time.Time { return vxTime(vxClockReading(0)) },
}

// VxB_Faults: the transport fails open (C10): arbitrary store faults, undecodable or
// adversarial store contents, origin failures, logging enabled or not.
func VxB_Faults() {
	vxND = vxBoundsB()
	w := vxNewWorld(0)
	logged := 0
	if vxChoice("log", 2) == 1 {
		w.rt.logger = internal.NewLogger(vxLogResolve{&logged})
		// the handler built from it keeps the old logger: rebuild the wiring that captured it
		w.rt.vrh = internal.NewValidationResponseHandler(w.rt.logger, w.rt.clock, w.rt.ci, w.rt.ce, w.rt.siep, w.rt.rs)
	}
	w.clk.start()
	id := vxURLKey + "#0"
	corrupt := false
	storeKind := vxChoice("store.kind", 8)
	switch storeKind {
	case 0: // empty
	case 1: // a valid entry with max-age and stale-if-error, arbitrary age (the subject here is faults)
		h := http.Header{"Date": []string{vxHTTPDate("e.date")}, "Cache-Control": []string{"max-age=60, stale-if-error=30"},
			"Etag": []string{"\"v1\""}, vxTagHeader: []string{"stored"}}
		rcv := vxTime("e.received")
		e := &vxResponse{ID: id, Data: &http.Response{StatusCode: 200, Header: h, Body: &vxBodyT{tag: 0}}, RequestedAt: rcv, ReceivedAt: rcv}
		_ = w.rt.cache.Set(id, e)
		_ = w.rt.cache.SetRefs(vxURLKey, internal.ResponseRefs{&internal.ResponseRef{ResponseID: id}})
		vxClkFloor, vxClkHasFloor = rcv, true
	case 2: // index is not decodable
		w.conn.m[vxURLKey] = []byte("garbage")
		corrupt = true
	case 3: // index holds a null element
		_ = w.rt.cache.SetRefs(vxURLKey, internal.ResponseRefs{nil})
		corrupt = true
	case 4: // index element with empty fields
		_ = w.rt.cache.SetRefs(vxURLKey, internal.ResponseRefs{&internal.ResponseRef{}})
		corrupt = true
	case 5: // index fine, entry bytes not decodable
		_ = w.rt.cache.SetRefs(vxURLKey, internal.ResponseRefs{&internal.ResponseRef{ResponseID: id}})
		w.conn.m[id] = []byte("garbage")
		corrupt = true
	case 6: // index fine, entry missing
		_ = w.rt.cache.SetRefs(vxURLKey, internal.ResponseRefs{&internal.ResponseRef{ResponseID: id}})
		corrupt = true
	case 7: // two index elements, one null, with Vary
		_ = w.rt.cache.SetRefs(vxURLKey, internal.ResponseRefs{&internal.ResponseRef{ResponseID: id, Vary: "Accept"}, nil})
		corrupt = true
	}
	w.conn.log = nil
	w.conn.faults = true
	vxOptNoMinFresh, vxOptNoReqSIE = true, true
	q, qs := vxReqCCBuild("req")
	req := vxGET(http.Header{"Cache-Control": []string{qs}})
	// a request the cache answers itself, or an unsafe one it forwards and invalidates for
	req.Method = [...]string{"GET", "POST"}[vxChoice("req.method", 2)]
	req.URL.User = url.UserPassword("alice", "s3cret") // credentials in the URL belong to the caller and the origin
	originErrs := 0
	var last *http.Response
	w.origin.script = func(n int, r *http.Request) (*http.Response, error) {
		w.clk.advance()
		switch vxChoice("origin.kind", 3) {
		case 0:
			last = &http.Response{StatusCode: 200, Header: http.Header{"Cache-Control": []string{"max-age=60"}, vxTagHeader: []string{"origin"}}, Body: &vxBodyT{tag: 2}}
		case 1:
			last = &http.Response{StatusCode: vxInt("v.status", 300, 599), Header: http.Header{vxTagHeader: []string{"origin"}}, Body: &vxBodyT{tag: 3}}
		default:
			originErrs++
			return nil, vxErrOrigin
		}
		return last, nil
	}
	resp, err, panicked := vxRoundTrip(w.rt, req)
	vxAssert(!panicked, "C10/panic")
	if panicked {
		return
	}
	vxCover("faults/returned")
	vxAssert((resp != nil) != (err != nil), "C10/exactly-one-of-response-and-error")
	vxAssert(vxImplies(err != nil, originErrs > 0), "C10/error-only-from-origin")
	faulted := false
	for _, o := range w.conn.log {
		if o.err && (o.op != "get" || w.has(o.key)) {
			faulted = true // an injected failure (a plain "not found" is not a fault)
		}
	}
	if (corrupt || faulted) && resp != nil && len(w.origin.calls) > 0 && storeKind != 1 {
		vxCover("faults/served-by-origin")
		vxAssert(resp == last, "C10/origin-response-not-returned-after-store-fault")
	}
	if corrupt && resp != nil && len(w.origin.calls) == 0 {
		// nothing usable is stored: only the synthesised 504 may be returned without the origin
		vxAssert(vxAnd(q.onlyIfCached, resp.StatusCode == 504), "C10/answered-from-corrupt-store")
	}
	vxAssert(len(w.origin.calls) <= 1, "C10/at-most-one-origin-call")
	pw, _ := req.URL.User.Password()
	vxAssert(req.URL.User.Username() == "alice" && pw == "s3cret", "C10/request-changed-when-logging")
	for _, oc := range w.origin.calls {
		opw, _ := oc.URL.User.Password()
		vxAssert(opw == "s3cret", "C10/request-changed-when-logging")
	}
	_ = logged
}

package httpcache

import (
	"log/slog"
	"net/http"
)

// vxGateT parks the first goroutine that reaches the selected point until released, so
// that a second request can run completely "inside" the first one at that point.  The
// same code works natively (channels inside the replay's synctest bubble).
type vxGateT struct {
	at      int // index of the selected point (-1: none)
	seen    int
	parked  bool
	release chan struct{}
	owner   int // which request (0/1) is subject to the gate
}

func (g *vxGateT) point(who int) {
	if g == nil || who != g.owner || g.parked {
		return
	}
	if g.seen == g.at {
		g.parked = true
		<-g.release
	}
	g.seen++
}

type vxGatedConn struct {
	*vxConnT
	g   *vxGateT
	who func() int
}

func (c vxGatedConn) Get(k string) ([]byte, error) { c.g.point(c.who()); return c.vxConnT.Get(k) }
func (c vxGatedConn) Set(k string, v []byte) error  { c.g.point(c.who()); return c.vxConnT.Set(k, v) }
func (c vxGatedConn) Delete(k string) error         { c.g.point(c.who()); return c.vxConnT.Delete(k) }

// VxB_Concurrent: two overlapping requests on one transport: request 1 runs completely
// while request 0 is parked at any one of its store or origin operations; each caller
// must get the response for its own URI and variant (C16).
func VxB_Concurrent() {
	vxND = vxBoundsB()
	gate := &vxGateT{at: vxChoice("gate", 8) - 1, release: make(chan struct{}), owner: 0}
	current := 0 // the request whose goroutine is running a store/origin operation (set by the stubs' callers)
	w := vxNewWorld(0)
	// rebuild the transport around a gated connection
	gc := vxGatedConn{w.conn, gate, func() int { return current }}
	rt := newTransport(gc, WithUpstream(w.origin), optionFunc(func(r *transport) { r.clock = w.clk }), WithLogger(slog.New(vxLogH{})), WithSWRTimeout(0)).(*transport)
	w.clk.start()

	// scenario: same URI with two variants, two URIs, or a GET racing an unsafe request
	scen := vxChoice("scenario", 3)
	mk := func(i int) *http.Request {
		switch scen {
		case 0:
			return vxGET(http.Header{"X-V": []string{string(rune('a' + i))}, "X-Who": []string{string(rune('0' + i))}})
		case 1:
			r := vxGET(http.Header{"X-Who": []string{string(rune('0' + i))}})
			r.URL.Path = "/p" + string(rune('0'+i))
			return r
		}
		r := vxGET(http.Header{"X-Who": []string{string(rune('0' + i))}})
		if i == 1 {
			r.Method = "POST"
		}
		return r
	}
	w.origin.script = func(n int, r *http.Request) (*http.Response, error) {
		who := int(r.Header.Get("X-Who")[0] - '0')
		current = who
		gate.point(who)
		current = who
		h := http.Header{"Date": []string{vxTime(vxClockReading(0)).UTC().Format(http.TimeFormat)}, "Cache-Control": []string{"max-age=1000"},
			vxTagHeader: []string{"for-" + r.Method + r.URL.Path + "-" + r.Header.Get("X-V")}}
		if scen == 0 {
			h["Vary"] = []string{"X-V"}
		}
		return &http.Response{StatusCode: 200, Header: h, Body: &vxBodyT{tag: 1 + who}}, nil
	}
	var resp [2]*http.Response
	var errs [2]error
	var done [2]bool
	run := func(i int) {
		req := mk(i)
		current = i
		resp[i], errs[i] = rt.RoundTrip(req)
		done[i] = true
	}
	go run(0)
	vxRunAll() // request 0 is parked at the gate, or finished
	go run(1)
	vxRunAll()
	if gate.parked {
		current = 0
		close(gate.release)
		vxRunAll()
	}
	vxCover("conc/finished")
	vxAssert(done[0] && done[1], "C16/concurrent-call-did-not-finish")
	vxAssert(vxBgPanics() == 0, "C10/background-panic")
	for i := 0; i < 2; i++ {
		if !done[i] || errs[i] != nil || resp[i] == nil {
			vxAssert(!done[i] || errs[i] == nil, "C10/error-only-from-origin")
			continue
		}
		req := mk(i)
		want := "for-" + req.Method + req.URL.Path + "-" + req.Header.Get("X-V")
		vxAssert(vxTagOf(resp[i]) == want, "C16/concurrent-caller-got-another-request's-response")
	}
}

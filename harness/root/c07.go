package httpcache

import (
	"net/http"
	"net/url"

	"github.com/bartventer/httpcache/internal"
)

// seedKey stores minimal fresh entries (and their index) under urlKey.
func (w *vxWorld) seedKey(urlKey string, variants int) {
	var refs internal.ResponseRefs
	for i := 0; i < variants; i++ {
		id := urlKey + "#" + string(rune('0'+i))
		e := &vxResponse{ID: id, Data: &http.Response{StatusCode: 200, Header: http.Header{
			"Date": []string{"Thu, 01 Jan 2026 00:00:00 GMT"}, "Cache-Control": []string{"max-age=999999"}, vxTagHeader: []string{"stored"}}, Body: &vxBodyT{tag: 0}}}
		ref := &internal.ResponseRef{ResponseID: id}
		if i == 1 { // the second variant is one that no request can select ("Vary: *")
			e.Data.Header["Vary"] = []string{"*"}
			ref.Vary, ref.VaryResolved = "*", map[string]string{"*": ""}
		}
		_ = w.rt.cache.Set(id, e)
		refs = append(refs, ref)
	}
	if variants > 0 {
		_ = w.rt.cache.SetRefs(urlKey, refs)
	}
}

func (w *vxWorld) has(key string) bool { _, ok := w.conn.m[key]; return ok }

// registered safe methods (IANA HTTP Method Registry, "safe = yes")
func vxSafeMethod(m string) bool {
	switch m {
	case "GET", "HEAD", "OPTIONS", "TRACE", "PROPFIND", "REPORT", "SEARCH", "QUERY":
		return true
	}
	return false
}

var vxC07Methods = [...]string{"GET", "HEAD", "OPTIONS", "TRACE", "POST", "PUT", "DELETE", "PATCH", "PROPPATCH", "MKCOL", "COPY", "MOVE", "LOCK", "UNLOCK", "BREW", "post", "Delete"}

type vxLocShape struct {
	value      string // header value
	key        string // URL key of the located URI ("" if unparsable)
	sameOrigin bool
}

// shapes of Location / Content-Location relative to the target http://h.test/p
var vxLocShapes = [...]vxLocShape{
	{"", "", false},
	{"/other", "http://h.test/other", true},
	{"other", "http://h.test/other", true},
	{"http://h.test/other", "http://h.test/other", true},
	{"HTTP://H.TEST:80/other", "http://h.test/other", true},
	{"http://evil.test/other", "http://evil.test/other", false},
	{"https://h.test/other", "https://h.test/other", false},
	{"http://h.test:8080/other", "http://h.test:8080/other", false},
	{"http://h.test.evil.test/other", "http://h.test.evil.test/other", false},
	{"http://api.h.test/other", "http://api.h.test/other", false},
	{"http://evilh.test/other", "http://evilh.test/other", false},
	{"http://h.tes/other", "http://h.tes/other", false},
	{"//evil.test/other", "http://evil.test/other", false},
	{"http://[::1", "", false},
}

// VxB_Unsafe: an unsafe request through the transport invalidates what is stored for
// its target and for same-origin Location/Content-Location URIs, and nothing else (C07).
func VxB_Unsafe() {
	vxND = vxBoundsB()
	w := vxNewWorld(0)
	w.clk.start()
	nvar := vxChoice("variants", 3) // 0..2 stored variants of the target
	w.seedKey(vxURLKey, nvar)
	loc := vxLocShapes[vxChoice("loc", len(vxLocShapes))]
	cloc := vxLocShapes[vxChoice("cloc", len(vxLocShapes))]
	for _, s := range []vxLocShape{loc, cloc} {
		if s.key != "" && !w.has(s.key) {
			w.seedKey(s.key, 1)
		}
	}
	w.conn.log = nil
	method := vxC07Methods[vxChoice("method", len(vxC07Methods))]
	// any RFC 3986-equivalent spelling of the target
	spell := [...]url.URL{
		{Scheme: "http", Host: "h.test", Path: "/p"},
		{Scheme: "http", Host: "H.Test", Path: "/p"},
		{Scheme: "http", Host: "h.test:80", Path: "/p"},
		{Scheme: "http", Host: "h.test", Path: "/x/../p"},
		{Scheme: "http", Host: "h.test", Path: "/p", RawPath: "/%70", Fragment: "frag"},
	}
	u := spell[vxChoice("spelling", len(spell))]
	req := &http.Request{Method: method, URL: &u, Header: http.Header{}, Host: "h.test"}
	status := vxInt("o.status", 100, 599)
	w.origin.script = func(n int, r *http.Request) (*http.Response, error) {
		w.clk.advance()
		h := http.Header{"Date": []string{"Thu, 01 Jan 2026 00:00:00 GMT"}, vxTagHeader: []string{"origin"}}
		if loc.value != "" {
			h["Location"] = []string{loc.value}
		}
		if cloc.value != "" {
			h["Content-Location"] = []string{cloc.value}
		}
		return &http.Response{StatusCode: status, Header: h, Body: &vxBodyT{tag: 7}}, nil
	}
	resp, err, panicked := vxRoundTrip(w.rt, req)
	vxAssert(!panicked, "C10/panic")
	if panicked || err != nil || resp == nil {
		return
	}
	unsafe := !vxSafeMethod(method)
	nonError := vxAnd(status >= 200, status < 400)
	gone := func(urlKey string) bool {
		return !w.has(urlKey) && !w.has(urlKey+"#0") && !w.has(urlKey+"#1")
	}
	if method == "GET" {
		return // served through the cache: another property
	}
	vxCover("unsafe/forwarded")
	if unsafe {
		// everything stored for the target is gone after a 2xx/3xx answer
		vxAssert(vxImplies(nonError, gone(vxURLKey)), "C07/target-not-invalidated")
		for _, s := range []vxLocShape{loc, cloc} {
			if s.key != "" && s.sameOrigin {
				vxAssert(vxImplies(nonError, gone(s.key)), "C07/same-origin-location-not-invalidated")
			}
		}
	}
	// other origins are never touched, whatever the method and status
	for _, s := range []vxLocShape{loc, cloc} {
		if s.key != "" && !s.sameOrigin {
			vxAssert(w.has(s.key) && w.has(s.key+"#0"), "C07/cross-origin-entry-evicted")
		}
	}
	// a failed or informational answer invalidates nothing
	if nvar > 0 {
		vxAssert(vxImplies(!nonError, w.has(vxURLKey)), "C07/invalidated-on-error-status")
	}
}

package httpcache

import (
	"net/http"

	"github.com/bartventer/httpcache/internal"
)

// VxB_GateHit: a fresh response is stored for the URI; a request of any method, with or
// without Range, with arbitrary request directives (only-if-cached, max-stale, ...) is
// answered from the store only if it is a GET without Range (C03) - whatever else the
// request says - and never reaches the origin under only-if-cached (C18).
func VxB_GateHit() {
	vxND = vxBoundsB()
	w := vxNewWorld(0)
	id := vxURLKey + "#0"
	vxGateRcv := vxTimeSec("e.date") // received when generated
	e := &vxResponse{ID: id, Data: &http.Response{StatusCode: 200, Header: http.Header{
		"Date": []string{vxHTTPDate("e.date")}, "Cache-Control": []string{"max-age=999999999"}, "Etag": []string{"\"v1\""}, vxTagHeader: []string{"stored"}},
		Body: &vxBodyT{tag: 0}}, RequestedAt: vxGateRcv, ReceivedAt: vxGateRcv}
	vxClkFloor, vxClkHasFloor = vxGateRcv, true
	_ = w.rt.cache.Set(id, e)
	_ = w.rt.cache.SetRefs(vxURLKey, internal.ResponseRefs{&internal.ResponseRef{ResponseID: id}})
	w.conn.log = nil
	w.clk.start()
	q, qs := vxReqCCBuild("req")
	hdr := http.Header{"Cache-Control": []string{qs}}
	hasRange := vxBool("req.range")
	hdr[vxHdrKey(hasRange, "Range")] = []string{"bytes=0-1"}
	req := vxGET(hdr)
	req.Method = vxMethods[vxChoice("req.method", len(vxMethods))]
	w.origin.script = func(n int, r *http.Request) (*http.Response, error) {
		vxAssert(!q.onlyIfCached, "C18/origin-contacted-under-only-if-cached")
		w.clk.advance()
		return &http.Response{StatusCode: 200, Header: http.Header{vxTagHeader: []string{"origin"}}, Body: &vxBodyT{tag: 2}}, nil
	}
	resp, err, panicked := vxRoundTrip(w.rt, req)
	vxAssert(!panicked, "C10/panic")
	if panicked || err != nil || resp == nil {
		return
	}
	vxCover("gate/answered")
	if vxTagOf(resp) == "stored" {
		vxCover("gate/from-store")
		vxAssert(vxAnd(req.Method == "GET", !hasRange), "C03/stored-response-served-to-other-than-plain-get")
	}
}

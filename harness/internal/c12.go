package internal

import (
	"net/http"
	"time"
)

type vxDir struct {
	name    string
	numeric bool // takes a delta-seconds argument
}

var vxDirs = [...]vxDir{
	{"no-store", false}, {"no-cache", false}, {"max-age", true}, {"min-fresh", true}, {"max-stale", true},
	{"only-if-cached", false}, {"must-revalidate", false}, {"must-understand", false}, {"public", false},
	{"immutable", false}, {"stale-if-error", true}, {"stale-while-revalidate", true},
}

// vxSpellName: the directive name with an arbitrary letter case (one symbolic bit per letter).
func vxSpellName(p, name string) string {
	s := ""
	for i := 0; i < len(name); i++ {
		c := name[i]
		if c >= 'a' && c <= 'z' {
			s += vxSel(vxBool(p+".up"+string(rune('a'+i))), string(rune(c-32)), string(rune(c)))
		} else {
			s += string(rune(c))
		}
	}
	return s
}

// vxOWS: 0..2 bytes of optional whitespace, each SP or HTAB.
func vxOWS(p string) string {
	s := ""
	n := vxChoice(p+".n", 3)
	for i := 0; i < n; i++ {
		s += vxSel(vxBool(p+".tab"+string(rune('0'+i))), "\t", " ")
	}
	return s
}

type vxAccessors struct {
	d   [8]time.Duration
	ok  [8]bool
	b   [10]bool
	ncq bool
	imm bool
}

// vxAllAccessors evaluates every accessor of both directive types on a header.
func vxAllAccessors(h http.Header) vxAccessors {
	var a vxAccessors
	q := ParseCCRequestDirectives(h)
	r := ParseCCResponseDirectives(h)
	a.d[0], a.ok[0] = q.MaxAge()
	a.d[1], a.ok[1] = q.MinFresh()
	a.d[2], a.ok[2] = q.StaleIfError()
	ms, msok := q.MaxStale()
	a.b[0] = msok
	a.b[9] = ms == ""
	a.d[3], a.ok[3] = ms.Value()
	a.b[1], a.b[2], a.b[3] = q.NoCache(), q.NoStore(), q.OnlyIfCached()
	a.d[4], a.ok[4] = r.MaxAge()
	a.d[5], a.ok[5] = r.StaleIfError()
	a.d[6], a.ok[6] = r.StaleWhileRevalidate()
	a.b[4], a.b[5], a.b[6] = r.MaxAgePresent(), r.MustRevalidate(), r.MustUnderstand()
	nc, ncok := r.NoCache()
	a.b[7] = ncok
	a.ncq = vxAnd(ncok, nc != "")
	a.b[8] = r.NoStore()
	a.ok[7] = r.Public()
	a.b[9] = vxAnd(a.b[9], true)
	a.imm = r.Immutable()
	return a
}

func vxSameAccessors(x, y vxAccessors) bool {
	r := true
	for i := range x.d {
		r = vxAnd(r, vxAnd(x.ok[i] == y.ok[i], x.d[i] == y.d[i]))
	}
	for i := range x.b {
		r = vxAnd(r, x.b[i] == y.b[i])
	}
	return vxAnd(r, vxAnd(x.ncq == y.ncq, x.imm == y.imm))
}

// VxC12_Spelling: every meaning-preserving rewrite of a Cache-Control value (letter case,
// optional whitespace, empty list elements, quoted-string arguments, several field
// lines, order, unknown extension directives) yields the same accessor results as the
// canonical single-line lower-case form (C12).
func VxC12_Spelling() {
	i1 := vxChoice("d1", len(vxDirs))
	i2 := vxChoice("d2", len(vxDirs))
	if i2 <= i1 {
		vxStop() // unordered pairs of distinct directives
	}
	d1, d2 := vxDirs[i1], vxDirs[i2]
	arg := func(p string, d vxDir) (canon, spelled string) {
		if !d.numeric {
			return "", ""
		}
		n := vxDigits(p, vxArgDigits())
		canon = "=" + n
		spelled = "=" + n
		if vxChoice(p+".quoted", 2) == 1 {
			spelled = "=\"" + n + "\""
		}
		return
	}
	a1c, a1s := arg("n1", d1)
	a2c, a2s := arg("n2", d2)
	canon := http.Header{"Cache-Control": []string{d1.name + a1c + ", " + d2.name + a2c}}

	e1 := vxSpellName("s1", d1.name) + a1s
	e2 := vxSpellName("s2", d2.name) + a2s
	if vxChoice("swap", 2) == 1 {
		e1, e2 = e2, e1
	}
	// (the last two carry quoted-pairs: an escaped quote followed by a comma, and a value
	// that ends in an escaped backslash)
	ext := [...]string{"", "x", "x=y", "x=\"a,b\"", "community=\"UCI\"", "x=\"a\\\",b\"", "x-root=\"C:\\\\\""}[vxChoice("ext", 7)]
	sep := vxOWS("ws1") + "," + vxOWS("ws2")
	if vxChoice("empty", 2) == 1 {
		sep = " , ," + sep
	}
	var lines []string
	switch vxChoice("layout", 4) {
	case 0: // one line
		s := e1 + sep + e2
		if ext != "" {
			s = e1 + sep + ext + "," + e2
		}
		lines = []string{s}
	case 1: // two field lines
		lines = []string{e1, e2}
		if ext != "" {
			lines = []string{e1 + "," + ext, e2}
		}
	case 2: // extension first, trailing comma
		s := e1 + sep + e2 + ","
		if ext != "" {
			s = ext + ", " + s
		}
		lines = []string{s}
	default: // leading empty element, extension on its own line
		lines = []string{"," + e1 + sep + e2}
		if ext != "" {
			lines = []string{ext, "," + e1 + sep + e2}
		}
	}
	spelled := http.Header{"Cache-Control": lines}
	want := vxAllAccessors(canon)
	got := vxAllAccessors(spelled)
	vxCover("C12/compared")
	vxAssert(vxSameAccessors(want, got), "C12/spelling-changes-meaning")
}

// VxC12_Overflow: delta-seconds too large to represent act as at least 2^31 seconds and
// are never negative (C12), for every string of 1..21 decimal digits.
func VxC12_Overflow() {
	n := 1 + vxChoice("len", 21)
	s := vxDigits("v", n)
	d, ok := RawDeltaSeconds(s).Value()
	vxCover("C12/overflow")
	vxAssert(ok, "C12/digits-rejected")
	z, _ := vxZDigits(s)
	big := vxZOf(vxTwo31)
	vxAssert(d >= 0, "C12/negative-duration")
	vxAssert(vxImplies(vxZLeq(big, z), int64(d) >= vxTwo31*vxSecond), "C12/large-value-not-at-least-2^31")
	vxAssert(vxImplies(vxZLess(z, big), vxZEq(vxZOf(int64(d)), vxZMulK(z, vxSecond))), "C12/small-value-not-exact")
}

// vxZeroClk: a clock for which no time passes (Since = 0).
type vxZeroClk struct{}

func (vxZeroClk) Now() time.Time                  { return time.Time{} }
func (vxZeroClk) Since(t time.Time) time.Duration { return 0 }

// VxC12_Window: a huge stale-if-error argument acts as a window of at least 2^31 seconds
// where it is consumed, not only where it is parsed: CanStaleOnError with arbitrary age
// and lifetime (any non-negative int64 nanoseconds) and every argument of 1..21 digits.
func VxC12_Window() {
	n := 1 + vxChoice("len", 21)
	ds := vxDigits("sie", n)
	age := vxInt64("age")
	life := vxInt64("life")
	vxAssume(age >= 0 && life >= 0)
	f := &Freshness{IsStale: true, Age: &Age{Value: time.Duration(age)}, UsefulLife: time.Duration(life)}
	cc := CCResponseDirectives{"stale-if-error": ds}
	got := NewStaleIfErrorPolicy(vxZeroClk{}).CanStaleOnError(f, cc)
	z, _ := vxZDigits(ds)
	staleFor := vxZSub(vxZOf(age), vxZOf(life))
	exact := vxZMulK(z, vxSecond)
	clamped := vxZMulK(vxZMin(z, vxZOf(vxTwo31)), vxSecond)
	vxCover("C12/window")
	// inside the window under every admitted reading => allowed; outside under every reading => refused
	vxAssert(vxImplies(vxZLess(staleFor, clamped), got), "C12/huge-window-refuses")
	vxAssert(vxImplies(vxZLess(exact, staleFor), !got), "C12/window-exceeded-but-allowed")
}

// vxArgDigits: numeric arguments of 3 symbolic digits (quick) or 6 (thorough)
func vxArgDigits() int {
	if vxTier() == "thorough" {
		return 6
	}
	return 3
}

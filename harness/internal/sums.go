package internal

// Summary harnesses: the real time.Time methods on wall-clock operands (year 1..9999,
// no monotonic reading), explored once and merged into one term per result.

import "time"

func VxSum_TimeSub()     { t, u := vxTime("a0"), vxTime("a1"); vxSummary("(time.Time).Sub", t.Sub(u)) }
func VxSum_TimeBefore()  { t, u := vxTime("a0"), vxTime("a1"); vxSummary("(time.Time).Before", t.Before(u)) }
func VxSum_TimeAfter()   { t, u := vxTime("a0"), vxTime("a1"); vxSummary("(time.Time).After", t.After(u)) }
func VxSum_TimeEqual()   { t, u := vxTime("a0"), vxTime("a1"); vxSummary("(time.Time).Equal", t.Equal(u)) }
func VxSum_TimeCompare() { t, u := vxTime("a0"), vxTime("a1"); vxSummary("(time.Time).Compare", t.Compare(u)) }
func VxSum_TimeIsZero()  { t := vxTime("a0"); vxSummary("(time.Time).IsZero", t.IsZero()) }

var _ = time.Second

// VxLemma_TimeSub: the merged summary of the real (time.Time).Sub equals the exact
// difference saturated to the int64 range.
func VxLemma_TimeSub() {
	t, u := vxTime("t"), vxTime("u")
	d := t.Sub(u)
	exact := vxZSub(vxZTime(t), vxZTime(u))
	sat := vxZMin(vxZMax(exact, vxZOf(-1<<63)), vxZOf(1<<63-1))
	vxCover("lemma/sub")
	vxAssert(vxZEq(vxZOf(int64(d)), sat), "lemma/time.Sub-is-saturating-difference")
}

const vxPkg = "github.com/bartventer/httpcache/internal."

// scalar helpers of the package under test: one merged term each instead of one path
// per switch arm.
func VxSum_isHeuristicallyCacheableCode() {
	c := int(vxInt64("a0"))
	vxSummary(vxPkg+"isHeuristicallyCacheableCode", isHeuristicallyCacheableCode(c))
}
func VxSum_isStatusUnderstood() {
	c := int(vxInt64("a0"))
	vxSummary(vxPkg+"isStatusUnderstood", isStatusUnderstood(c))
}
func VxSum_isStaleErrorAllowed() {
	c := int(vxInt64("a0"))
	vxSummary(vxPkg+"isStaleErrorAllowed", isStaleErrorAllowed(c))
}
func VxSum_IsNonErrorStatus() {
	c := int(vxInt64("a0"))
	vxSummary(vxPkg+"IsNonErrorStatus", IsNonErrorStatus(c))
}

// Specification summaries: what the time methods compute on wall-clock operands, in
// exact integer arithmetic.  They replace the merged real summaries in the main
// queries (much smaller terms) and are proved equal to the real code by VxLemma_Time
// in the same run, so they are not trusted.
func VxSpec_TimeSub() {
	t, u := vxTime("a0"), vxTime("a1")
	vxSummary("(time.Time).Sub", time.Duration(vxZClampInt64(vxZSub(vxZTime(t), vxZTime(u)))))
}
func VxSpec_TimeBefore() {
	t, u := vxTime("a0"), vxTime("a1")
	vxSummary("(time.Time).Before", vxZLess(vxZTime(t), vxZTime(u)))
}
func VxSpec_TimeAfter() {
	t, u := vxTime("a0"), vxTime("a1")
	vxSummary("(time.Time).After", vxZLess(vxZTime(u), vxZTime(t)))
}
func VxSpec_TimeEqual() {
	t, u := vxTime("a0"), vxTime("a1")
	vxSummary("(time.Time).Equal", vxZEq(vxZTime(t), vxZTime(u)))
}
func VxSpec_TimeCompare() {
	t, u := vxTime("a0"), vxTime("a1")
	vxSummary("(time.Time).Compare", vxZCmp(vxZTime(t), vxZTime(u)))
}

func VxLemma_Time() {
	t, u := vxTime("t"), vxTime("u")
	zt, zu := vxZTime(t), vxZTime(u)
	vxCover("lemma/time")
	vxAssert(int64(t.Sub(u)) == vxZClampInt64(vxZSub(zt, zu)), "lemma/time.Sub")
	vxAssert(t.Before(u) == vxZLess(zt, zu), "lemma/time.Before")
	vxAssert(t.After(u) == vxZLess(zu, zt), "lemma/time.After")
	vxAssert(t.Equal(u) == vxZEq(zt, zu), "lemma/time.Equal")
	vxAssert(t.Compare(u) == vxZCmp(zt, zu), "lemma/time.Compare")
}

// Functions whose paths are merged at the call (DESIGN.md §2.4 "function-level path
// merging"): parsers and accessors that do not write to pre-existing heap objects.
var vxMergeable = []string{
	"(" + vxPkg + "RawDeltaSeconds).Value",
	vxPkg + "getDurationDirective",
	vxPkg + "hasToken",
	"(" + vxPkg + "CCRequestDirectives).MaxStale",
	"(" + vxPkg + "RawTime).Value",
	"(*" + vxPkg + "Response).ExpiresHeader",
	"(*" + vxPkg + "Response).DateHeader",
	vxPkg + "heuristicFreshness",
	vxPkg + "calculateCurrentAge",
	"net/textproto.isASCIISpace",
	vxPkg + "validQDTextByte",
	"(" + vxPkg + "CCResponseDirectives).NoCache",
}

package internal

import (
	"net/http"
)

var vxLensQuick = [...]int{0, 1, 5}
var vxLensThorough = [...]int{0, 1, 2, 5, 9}

func vxLens() []int {
	if vxTier() == "thorough" {
		return vxLensThorough[:]
	}
	return vxLensQuick[:]
}

// vxVal: a field value of symbolic bytes that net/http lets a client send (HTAB, SP,
// visible ASCII, obs-text; no other control characters).
func vxVal(p string) string {
	ls := vxLens()
	s := vxStr(p, ls[vxChoice(p+".len", len(ls))])
	for i := 0; i < len(s); i++ {
		c := s[i]
		vxAssume(vxOr(c == '\t', vxAnd(c >= 0x20, c != 0x7f)))
	}
	return s
}

// vxResolved builds a resolved-variant map of one of three shapes with symbolic values.
func vxResolved(p string) map[string]string {
	switch vxChoice(p+".shape", 3) {
	case 0:
		return map[string]string{"X-A": vxVal(p + ".a")}
	case 1:
		return map[string]string{"X-B": vxVal(p + ".b")}
	}
	return map[string]string{"X-A": vxVal(p + ".a"), "X-B": vxVal(p + ".b")}
}

func vxSameMap(m1, m2 map[string]string) bool {
	if len(m1) != len(m2) {
		return false
	}
	r := true
	for k, v := range m1 {
		w, ok := m2[k]
		if !ok {
			return false
		}
		r = vxAnd(r, v == w)
	}
	return r
}

// VxC04_Key: the variant id is injective in the resolved selecting values (FNV-64a is
// modelled as an injective function of the byte stream it is fed): different values of
// the nominated fields never share an id, whatever header-name-like text they contain.
func VxC04_Key() {
	m1, m2 := vxResolved("m1"), vxResolved("m2")
	k1, k2 := makeVaryKey("http://h.test/p", m1), makeVaryKey("http://h.test/p", m2)
	vxCover("C04/key")
	vxAssert(vxImplies(k1 == k2, vxSameMap(m1, m2)), "C04/variant-id-collision")
	vxAssert(vxImplies(vxSameMap(m1, m2), k1 == k2), "C09/same-variant-different-id")
}

// vxTrim: OWS trimming of a symbolic string is avoided by construction: values have no
// leading/trailing whitespace (assumed below).
func vxNoOWS(s string) bool {
	if len(s) == 0 {
		return true
	}
	a, b := s[0], s[len(s)-1]
	return vxAnd(vxAnd(a != ' ', a != '\t'), vxAnd(b != ' ', b != '\t'))
}

// vxReqHeader: request header with X-A / X-B: absent, or one or two field lines.
func vxReqHeader(p string) (http.Header, [2][]string) {
	h := http.Header{}
	var lines [2][]string
	for i, name := range [...]string{"X-A", "X-B"} {
		switch vxChoice(p+"."+name+".lines", 3) {
		case 0:
		case 1:
			lines[i] = []string{vxStr(p+"."+name+".0", 1+vxChoice(p+"."+name+".len0", vxMatchLen()))}
		default:
			lines[i] = []string{vxStr(p+"."+name+".0", 1), vxStr(p+"."+name+".1", 1)}
		}
		for _, l := range lines[i] {
			vxAssume(vxNoOWS(l))
			// a comma inside a line would make one line equivalent to two: excluded
			for k := 0; k < len(l); k++ {
				vxAssume(l[k] != ',')
			}
		}
		if lines[i] != nil {
			h[name] = lines[i]
		}
	}
	return h, lines
}

func vxSameLines(a, b []string) bool {
	if len(a) != len(b) {
		return false
	}
	r := true
	for i := range a {
		r = vxAnd(r, a[i] == b[i])
	}
	return r
}

var vxVaryValues = [...]string{"X-A", "X-B", "X-A, X-B", "X-B, X-A", "x-a", "*", ""}
var vxVaryFields = [...][2]bool{{true, false}, {false, true}, {true, true}, {true, true}, {true, false}, {false, false}, {false, false}}

// VxC04_Match: a stored variant (recorded through the real store path for request 1)
// matches request 2 only if every nominated field has an equivalent value in both
// requests (absent matches only absent; all field lines count), and 'Vary: *' never
// matches.
func VxC04_Match() {
	vi := vxChoice("vary", len(vxVaryValues))
	vary := vxVaryValues[vi]
	h1, l1 := vxReqHeader("r1")
	h2, l2 := vxReqHeader("r2")
	resolved := map[string]string{}
	for k, v := range normalizeVaryHeaderSeq2(vary, h1) {
		resolved[k] = v
	}
	ref := &ResponseRef{ResponseID: makeVaryKey("k", resolved), Vary: vary, VaryResolved: resolved}
	_, found := NewVaryMatcher(NewHeaderValueNormalizer()).VaryHeadersMatch(ResponseRefs{ref}, h2)
	vxCover("C04/match")
	same := true
	for i := 0; i < 2; i++ {
		if vxVaryFields[vi][i] {
			same = vxAnd(same, vxSameLines(l1[i], l2[i]))
		}
	}
	if vary == "*" {
		vxAssert(!found, "C04/vary-star-matched")
		return
	}
	vxAssert(vxImplies(found, same), "C04/matched-despite-different-nominated-field")
	vxAssert(vxImplies(same, found), "C09/equivalent-request-not-matched")
}

// vxMatchLen: one field line of 1..2 symbolic bytes (quick) or 1..4 (thorough)
func vxMatchLen() int {
	if vxTier() == "thorough" {
		return 4
	}
	return 2
}

package internal

// VxC09_HeaderNorm: spellings of a selecting header value that the cache documents as
// equivalent (member order, optional whitespace, the case of the weight parameter name,
// trailing zeros of a weight) normalise to the same value, so an equivalent request finds
// the stored variant (C09).  Field: Accept-Language (a q-valued, order-insensitive list).
func VxC09_HeaderNorm() {
	members := [3][2]string{{"en-US", ""}, {"en", "0.8"}, {"fr", "0.5"}}
	canon := "en-US,en;q=0.8,fr;q=0.5"
	perms := [6][3]int{{0, 1, 2}, {0, 2, 1}, {1, 0, 2}, {1, 2, 0}, {2, 0, 1}, {2, 1, 0}}
	perm := perms[vxChoice("perm", 6)]
	spelled := ""
	for i, mi := range perm {
		m := members[mi]
		s := string(rune('0' + i))
		if i > 0 {
			spelled += vxSel(vxBool("ws.a"+s), " ", "\t") + "," + vxSel(vxBool("ws.b"+s), " ", "\t")
		}
		spelled += m[0]
		if m[1] != "" {
			w := m[1]
			if vxChoice("zeros"+s, 2) == 1 {
				w += "0"
			}
			spelled += ";" + vxSel(vxBool("ws.c"+s), " ", "\t") + vxSel(vxBool("q.upper"+s), "Q", "q") + "=" + w
		}
	}
	want := normalizeHeaderValue("Accept-Language", canon)
	got := normalizeHeaderValue("Accept-Language", spelled)
	vxCover("C09/header-norm")
	vxAssert(got == want, "C09/equivalent-header-spelling-normalises-differently")
}

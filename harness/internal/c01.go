package internal

import (
	"net/http"
	"time"
)

// ---------------------------------------------------------------------------
// shared layer-A world: a stored entry with symbolic metadata and a symbolic clock

type vxClk struct{}

// Now returns arbitrary non-decreasing wall-clock instants (stub contract of DESIGN.md
// §5).  The stub keeps no heap state (reading k is the variable "now<k>"), so it may be
// called inside mergeable functions.
func (c *vxClk) Now() time.Time {
	k := vxSeq("clk")
	t := vxTime("now" + string(rune('0'+k)))
	if k > 0 {
		vxAssume(!t.Before(vxTime("now" + string(rune('0'+k-1)))))
	}
	return t
}
func (c *vxClk) Since(t time.Time) time.Duration { return c.Now().Sub(t) }

const vxTwo31 = int64(1) << 31 // "at least 2^31 seconds" (RFC 9111 §1.2.2)

// vxDelta builds a delta-seconds argument: kind 0 = n decimal digits (leading zeros
// allowed), kind 1 = invalid.  One symbolic string so that the parser forks lazily.
func vxDelta(name string, ndigits int) string {
	return vxSel(vxBool(name+".valid"), vxDigits(name, ndigits), "x000000000000000000000000"[:ndigits])
}

// vxDeltaSpec: the meaning of a delta-seconds string for the oracle: (lo, hi, valid) in
// seconds, where values >= 2^31 may be read exactly or as 2^31 (both admitted).
func vxDeltaSpec(s string) (lo, hi vxZ, valid bool) {
	n, ok := vxZDigits(s)
	big := vxZOf(vxTwo31)
	lo = vxZMin(n, big)
	return lo, n, ok
}

func vxNDigits() int {
	if vxTier() == "thorough" {
		return 20
	}
	return 10
}

// vxEntry is an arbitrary stored entry satisfying the representation invariant:
// Date parses (FixDateHeader), RequestedAt <= ReceivedAt, status storable (C06).
type vxEntryT struct {
	e                      *Response
	date                   time.Time
	hasExpires, expValid   bool
	expires                time.Time
	hasLM, lmValid         bool
	lastMod                time.Time
	ageStr                 string
	hasAge                 bool
	status                 int
}

func vxHdrKey(present bool, name string) string {
	// "X" + name[1:] is never looked up by the code under test
	return vxSel(present, name, "X"+name[1:])
}

func vxEntry(p string) *vxEntryT {
	x := &vxEntryT{}
	h := http.Header{}
	x.status = vxInt(p+".status", 200, 599)
	vxAssume(x.status != 206 && x.status != 304)
	// Date: always valid in a stored entry
	h["Date"] = []string{vxHTTPDate(p + ".date")}
	x.date = vxTimeSec(p + ".date")
	// Expires, Last-Modified: absent / valid / invalid -- all decided lazily (header key
	// and validity are symbolic; the code under test forks when it looks)
	x.hasExpires = vxBool(p + ".has-expires")
	x.expValid = vxBool(p + ".expires.valid")
	h[vxHdrKey(x.hasExpires, "Expires")] = []string{vxHTTPDateOpt(p + ".expires")}
	x.expires = vxTimeSec(p + ".expires")
	x.hasLM = vxBool(p + ".has-lm")
	x.lmValid = vxBool(p + ".lm.valid")
	h[vxHdrKey(x.hasLM, "Last-Modified")] = []string{vxHTTPDateOpt(p + ".lm")}
	x.lastMod = vxTimeSec(p + ".lm")
	// Age: absent / decimal digits / invalid (lazy), or negative (eager choice)
	x.hasAge = vxBool(p + ".has-age")
	if vxChoice(p+".age.kind", 2) == 0 {
		x.ageStr = vxDelta(p+".age", vxNDigits())
	} else {
		x.ageStr = "-5"
	}
	h[vxHdrKey(x.hasAge, "Age")] = []string{x.ageStr}
	req := vxTime(p + ".requested")
	rcv := vxTime(p + ".received")
	vxAssume(!rcv.Before(req))
	x.e = &Response{ID: "k#0", Data: &http.Response{StatusCode: x.status, Header: h}, RequestedAt: req, ReceivedAt: rcv}
	return x
}

// RFC 9110 §15.1 heuristically cacheable status codes.
func vxHeuristicStatus(code int) bool {
	r := false
	for _, c := range [...]int{200, 203, 204, 206, 300, 301, 308, 404, 405, 410, 414, 501} {
		r = vxOr(r, code == c)
	}
	return r
}

const vxSecond = int64(1000000000)

// vxSpecAge: RFC 9111 §4.2.3 current age in exact nanoseconds at instant now, for both
// admitted readings of a large Age value (lo: capped at 2^31 s; hi: exact).
func vxSpecAge(x *vxEntryT, now time.Time) (lo, hi vxZ) {
	zero := vxZOf(0)
	rcv, req, date := vxZTime(x.e.ReceivedAt), vxZTime(x.e.RequestedAt), vxZTime(x.date)
	apparent := vxZMax(vxZSub(rcv, date), zero)
	delay := vxZMax(vxZSub(rcv, req), zero)
	resident := vxZMax(vxZSub(vxZTime(now), rcv), zero)
	avLo, avHi := zero, zero
	{
		l, h, ok := vxDeltaSpec(x.ageStr)
		ok = vxAnd(ok, x.hasAge)
		avLo = vxZIte(ok, vxZMulK(l, vxSecond), zero)
		avHi = vxZIte(ok, vxZMulK(h, vxSecond), zero)
	}
	lo = vxZAdd(vxZMax(apparent, vxZAdd(avLo, delay)), resident)
	hi = vxZAdd(vxZMax(apparent, vxZAdd(avHi, delay)), resident)
	return
}

// vxSpecLifetime: RFC 9111 §4.2.1-4.2.2 freshness lifetime in exact nanoseconds; the
// largest value any admitted reading allows (so "age >= lifetime" means stale under
// every reading).
func vxSpecLifetime(x *vxEntryT, maxAgePresent bool, maxAgeStr string, public bool) vxZ {
	zero := vxZOf(0)
	expiresBased := vxZIte(vxAnd(x.hasExpires, x.expValid), vxZMax(vxZSub(vxZTime(x.expires), vxZTime(x.date)), zero), zero)
	_, mh, mok := vxDeltaSpec(maxAgeStr)
	// invalid max-age: stale, or (admitted) fall back to Expires
	maxAgeBased := vxZIte(mok, vxZMulK(mh, vxSecond), expiresBased)
	// at most 10% of (Date - Last-Modified); one second of slack for second-granularity rounding
	d := vxZSub(vxZTime(x.date), vxZTime(x.lastMod))
	heur := vxZMax(vxZAdd(vxZDivK(d, 10), vxZOf(vxSecond)), zero)
	heurOK := vxAnd(vxOr(vxHeuristicStatus(x.status), public), vxAnd(x.hasLM, x.lmValid))
	heurBased := vxZIte(heurOK, heur, zero)
	return vxZIte(maxAgePresent, maxAgeBased, vxZIte(x.hasExpires, expiresBased, heurBased))
}

// VxC01_Freshness: layer-A check of CalculateFreshness against the RFC oracle.
func VxC01_Freshness() {
	x := vxEntry("e")
	nd := vxNDigits()
	// response directives
	resCC := CCResponseDirectives{}
	rMaxAge := vxBool("resp.max-age")
	rMaxAgeStr := vxDelta("resp.max-age", nd)
	resCC[vxSel(rMaxAge, "max-age", "xax-age")] = rMaxAgeStr
	public := vxBool("resp.public")
	resCC[vxSel(public, "public", "xublic")] = ""
	// request directives
	reqCC := CCRequestDirectives{}
	qMaxAge := vxBool("req.max-age")
	qMaxAgeStr := vxDelta("req.max-age", nd)
	reqCC[vxSel(qMaxAge, "max-age", "xax-age")] = qMaxAgeStr
	qMinFresh := vxBool("req.min-fresh")
	qMinFreshStr := vxDelta("req.min-fresh", nd)
	reqCC[vxSel(qMinFresh, "min-fresh", "xin-fresh")] = qMinFreshStr
	qMaxStale := vxBool("req.max-stale")
	qMaxStaleBare := vxBool("req.max-stale.bare")
	qMaxStaleStr := ""
	if !qMaxStaleBare {
		qMaxStaleStr = vxDelta("req.max-stale", nd)
	}
	reqCC[vxSel(qMaxStale, "max-stale", "xax-stale")] = qMaxStaleStr

	clk := &vxClk{}
	fc := NewFreshnessCalculator(clk)
	f := fc.CalculateFreshness(x.e, reqCC, resCC)
	first := vxTime("now0") // first clock reading of the exchange

	ageLo, _ := vxSpecAge(x, first)
	life := vxSpecLifetime(x, rMaxAge, rMaxAgeStr, public)
	fresh := vxZLess(ageLo, life)
	// staleness the request explicitly allows
	allowed := qMaxStaleBare
	if !qMaxStaleBare {
		_, h, ok := vxDeltaSpec(qMaxStaleStr)
		allowed = vxAnd(ok, vxZLess(ageLo, vxZAdd(life, vxZMulK(h, vxSecond))))
	}
	allowed = vxAnd(allowed, qMaxStale)
	if !f.IsStale {
		vxCover("C01A/reported-fresh")
		vxAssert(vxOr(fresh, allowed), "C01A/fresh-implies-spec-fresh-or-max-stale")
	} else {
		vxCover("C01A/reported-stale")
	}
}

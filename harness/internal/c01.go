package internal

import (
	"net/http"
	"time"
)

type vxResponse = Response

var _ = http.StatusOK
var _ = time.Second

// VxC01_Freshness: layer-A check of CalculateFreshness against the RFC oracle.
func VxC01_Freshness() {
	vxND = vxNDigits()
	x := vxEntry("e")
	nd := vxND
	// response directives
	resCC := CCResponseDirectives{}
	rMaxAge := vxBool("resp.max-age")
	rMaxAgeStr := vxDelta("resp.max-age", nd)
	resCC[vxSel(rMaxAge, "max-age", "xax-age")] = rMaxAgeStr
	public := vxBool("resp.public")
	resCC[vxSel(public, "public", "xublic")] = ""
	// request directives
	reqCC := CCRequestDirectives{}
	qMaxAge := vxBool("req.max-age")
	qMaxAgeStr := vxDelta("req.max-age", nd)
	reqCC[vxSel(qMaxAge, "max-age", "xax-age")] = qMaxAgeStr
	qMinFresh := vxBool("req.min-fresh")
	qMinFreshStr := vxDelta("req.min-fresh", nd)
	reqCC[vxSel(qMinFresh, "min-fresh", "xin-fresh")] = qMinFreshStr
	qMaxStale := vxBool("req.max-stale")
	qMaxStaleBare := vxBool("req.max-stale.bare")
	qMaxStaleStr := ""
	if !qMaxStaleBare {
		qMaxStaleStr = vxDelta("req.max-stale", nd)
	}
	reqCC[vxSel(qMaxStale, "max-stale", "xax-stale")] = qMaxStaleStr

	clk := &vxClk{}
	vxClkFloor, vxClkHasFloor = x.e.ReceivedAt, true
	clk.start()
	fc := NewFreshnessCalculator(clk)
	f := fc.CalculateFreshness(x.e, reqCC, resCC)
	first := vxTime("now0") // first clock reading of the exchange

	ageLo, _ := vxSpecAge(x, first)
	life := vxSpecLifetime(x, rMaxAge, rMaxAgeStr, public)
	fresh := vxZLess(ageLo, life)
	// staleness the request explicitly allows
	allowed := qMaxStaleBare
	if !qMaxStaleBare {
		_, h, ok := vxDeltaSpec(qMaxStaleStr)
		allowed = vxAnd(ok, vxZLess(ageLo, vxZAdd(life, vxZMulK(h, vxSecond))))
	}
	allowed = vxAnd(allowed, qMaxStale)
	if !f.IsStale {
		vxCover("C01A/reported-fresh")
		vxAssert(vxOr(fresh, allowed), "C01A/fresh-implies-spec-fresh-or-max-stale")
	} else {
		vxCover("C01A/reported-stale")
	}
}

type vxRequest = http.Request

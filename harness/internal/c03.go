package internal

import (
	"net/url"
)

func vxIsHex(c byte) bool {
	return vxOr(vxAnd('0' <= c, c <= '9'), vxOr(vxAnd('a' <= c, c <= 'f'), vxAnd('A' <= c, c <= 'F')))
}

// vxRefNorm: reference percent-encoding normalisation (RFC 3986 §6.2.2.1-2): escapes of
// unreserved ASCII are decoded, every other escape keeps its octet with upper-case hex
// digits, everything else is copied.
func vxRefNorm(s string) string {
	const hexd = "0123456789ABCDEF"
	out := ""
	for i := 0; i < len(s); {
		if s[i] == '%' && i+2 < len(s) && vxIsHex(s[i+1]) && vxIsHex(s[i+2]) {
			v := vxHexVal(s[i+1])<<4 | vxHexVal(s[i+2])
			unres := (v >= 'a' && v <= 'z') || (v >= 'A' && v <= 'Z') || (v >= '0' && v <= '9') || v == '-' || v == '.' || v == '_' || v == '~'
			if unres {
				out += string([]byte{v})
			} else {
				out += "%" + string([]byte{hexd[v>>4], hexd[v&15]})
			}
			i += 3
		} else {
			out += string([]byte{s[i]})
			i++
		}
	}
	return out
}

func vxHexVal(c byte) byte {
	switch {
	case c >= '0' && c <= '9':
		return c - '0'
	case c >= 'a' && c <= 'f':
		return c - 'a' + 10
	}
	return c - 'A' + 10
}

// VxC03_Percent: the real normalizePercentEncoding agrees with the reference on every
// byte string of the bounded length (all 256 byte values), hence two strings get the
// same normal form exactly when RFC 3986 says they are equivalent (C03, C09).
func VxC03_Percent() {
	n := 6
	if vxTier() == "thorough" {
		n = 8
	}
	l := 1 + vxChoice("len", n)
	s := vxStr("s", l)
	got := normalizePercentEncoding(s)
	want := vxRefNorm(s)
	vxCover("C03/percent")
	vxAssert(got == want, "C03/percent-normalisation-differs-from-rfc3986")
}

// host shapes: reg-name / IPv4-like / IPv6 literal, optional port, with symbolic letters
func vxHostShape(k int) (host string, hostname string, port string) {
	a := vxByteIn("h.a", 'A', 'z')
	b := vxByteIn("h.b", '0', ':')
	l := string([]byte{a})
	d := string([]byte{b})
	switch k {
	case 0:
		return l + ".test", l + ".test", ""
	case 1:
		return l + ".test:80", l + ".test", "80"
	case 2:
		return l + ".test:8" + d, l + ".test", "8" + d
	case 3:
		return l + ".test:", l + ".test", ""
	case 4:
		return "[::1]", "[::1]", ""
	case 5:
		return "[::1]:8" + d, "[::1]", "8" + d
	case 6:
		return "[::1:8" + d + "]", "[::1:8" + d + "]", ""
	case 7:
		return "[::1]:443", "[::1]", "443"
	case 8:
		return "10.0.0." + d, "10.0.0." + d, ""
	}
	return l + "-" + d + ".test:443", l + "-" + d + ".test", "443"
}

const vxHostShapes = 10

func vxLower(s string) string {
	out := ""
	for i := 0; i < len(s); i++ {
		c := s[i]
		if c >= 'A' && c <= 'Z' {
			c += 32
		}
		out += string([]byte{c})
	}
	return out
}

// VxC03_Key: the real makeURLKey equals the reference key scheme://lower(host)[:port]path[?query]
// (default port dropped, IPv6 brackets kept) for every host shape, scheme and a path/query
// with one symbolic byte; two URLs therefore share a key only if scheme, host, effective
// port, path and query are equivalent.
func VxC03_Key() {
	scheme := [...]string{"http", "https", "HTTP"}[vxChoice("scheme", 3)]
	host, hostname, port := vxHostShape(vxChoice("host", vxHostShapes))
	// the byte must be one a Go client can put into a host
	ha := vxByteIn("h.a", 'A', 'z')
	vxAssume((ha >= 'A' && ha <= 'Z') || (ha >= 'a' && ha <= 'z'))
	hb := vxByteIn("h.b", '0', ':')
	vxAssume(hb >= '0' && hb <= '9')
	p := vxByteIn("p", 'a', 'z')
	pi, qi := vxChoice("path", 7), vxChoice("query", 5)
	hi := vxByteIn("q.hi", 0x80, 0xFF) // a raw non-ASCII query byte stays as it is
	// shapes 5 and 6: a percent-escape of an arbitrary octet (any hex digit case) in the
	// path, as url.Parse delivers it (Path decoded, RawPath only when not canonical)
	x1, x2 := vxByte("p.x1"), vxByte("p.x2")
	rawEsc := "/s%" + string([]byte{x1, x2})
	if pi == 6 {
		rawEsc += string([]byte{p})
	}
	path := [...]string{"", "/", "/" + string([]byte{p}), "/a/../" + string([]byte{p}), "/./" + string([]byte{p}), "", ""}[pi]
	wantPath := [...]string{"/", "/", "/" + string([]byte{p}), "/" + string([]byte{p}), "/" + string([]byte{p}), "", ""}[pi]
	rawPath := ""
	if pi >= 5 {
		vxAssume(vxIsHex(x1) && vxIsHex(x2))
		pu, err := url.Parse("http://x.test" + rawEsc)
		if err != nil {
			vxStop()
		}
		path, rawPath = pu.Path, pu.RawPath
		wantPath = vxRefNorm(rawEsc)
	}
	query := [...]string{"", "q=" + string([]byte{p}), "q=%7e", "q=%e9", "q=" + string([]byte{hi})}[qi]
	wantQuery := [...]string{"", "?q=" + string([]byte{p}), "?q=~", "?q=%E9", "?q=" + string([]byte{hi})}[qi]
	u := &url.URL{Scheme: scheme, Host: host, Path: path, RawPath: rawPath, RawQuery: query, Fragment: "frag"}
	if vxChoice("userinfo", 2) == 1 {
		u.User = url.UserPassword("u", "p") // not part of the key (and not of the asserted differences)
	}
	got := makeURLKey(u)
	ls := vxLower(scheme)
	def := "80"
	if ls == "https" {
		def = "443"
	}
	want := ls + "://" + vxLower(hostname)
	if port != "" && port != def {
		want += ":" + port
	}
	want += wantPath + wantQuery
	vxCover("C03/key")
	vxLog("got", got, "want", want)
	vxAssert(got == want, "C03/key-differs-from-reference")
}

// VxC03_Method: only a GET without Range is served from or written to the store.
func VxC03_Method() {
	m := vxStr("m", 1+vxChoice("len", 4))
	hasRange := vxBool("range")
	h := map[string][]string{}
	// any non-empty Range value makes it a range request: unit names are case-insensitive
	// and extensible (RFC 9110 section 14.1), the cache does not interpret them
	h[vxHdrKey(hasRange, "Range")] = []string{vxStr("rv", 1+vxChoice("rlen", 7))}
	ok := isRequestMethodUnderstood(&vxRequest{Method: m, Header: h})
	vxCover("C03/method")
	vxAssert(ok == vxAnd(m == "GET", !hasRange), "C03/method-gate")
}


// vx: driver for the solver-based checks of /verif (see DESIGN.md).
//
//	vx check -id C01 -tier quick      run every harness registered for a property
//	vx run -pkg internal -func VxFoo  run one harness function (development)
package main

import (
	"encoding/json"
	"flag"
	"fmt"
	"os"
	"os/exec"
	"path/filepath"
	"runtime/pprof"
	"sort"
	"strings"
	"time"

	"golang.org/x/tools/go/packages"
	"golang.org/x/tools/go/ssa"
	"golang.org/x/tools/go/ssa/ssautil"

	"verif/engine/symgo"
)

var repoDir = "/repo" // overridable with $VX_REPO (development: run the checks against a scratch worktree)

var verifDir = "/verif" // overridable with $VX_VERIF (background runs from a snapshot of /verif)

const (
	goBin    = "/root/go/pkg/mod/golang.org/toolchain@v0.0.1-go1.25.0.linux-amd64/bin"
)

type HarnessSpec struct {
	Pkg       string   `json:"pkg"`   // harness directory under /verif/harness == package dir under /repo ("root" = module root)
	Funcs     []string `json:"funcs"` // entry points
	Summaries []string `json:"summaries,omitempty"` // merged summaries of real code (VxSum_*)
	Specs     []string `json:"specs,omitempty"`     // specification summaries (VxSpec_*), proved by Lemmas
	Lemmas    []string `json:"lemmas,omitempty"`    // lemma harnesses: real code == spec summary
	Labels    []string `json:"labels,omitempty"`  // assertion label prefixes checked (others are skipped)
	Covers    []string `json:"covers,omitempty"` // labels that must be reached (vacuity guard)
	Thorough  bool     `json:"thorough_only,omitempty"`
	Env       map[string]string `json:"env,omitempty"`
}

type CheckSpec struct {
	Property    string        `json:"property"`
	Harnesses   []HarnessSpec `json:"harnesses"`
	Assumptions []string      `json:"assumptions"`
	Bounds      map[string]string `json:"bounds"`
}

type KnownFile struct {
	Findings []symgo.KnownFinding `json:"findings"`
	Fixed    []string             `json:"fixed"`
}

func setupEnv() {
	os.Setenv("PATH", goBin+":"+os.Getenv("PATH"))
	os.Setenv("GOTOOLCHAIN", "local")
	os.Setenv("GOFLAGS", "-mod=mod")
	os.Setenv("GOPROXY", "off")
	os.Unsetenv("GOSUMDB")
}

func pkgDir(pkg string) string {
	if pkg == "root" || pkg == "" || pkg == "." {
		return repoDir
	}
	return filepath.Join(repoDir, pkg)
}

// overlayFor maps every harness file of the package into the repo package dir.
func overlayFor(pkg string) (map[string][]byte, map[string]string, error) {
	dir := filepath.Join(verifDir, "harness", pkg)
	ents, err := os.ReadDir(dir)
	if err != nil {
		return nil, nil, err
	}
	ov := map[string][]byte{}
	paths := map[string]string{}
	pd := pkgDir(pkg)
	var pkgName string
	for _, e := range ents {
		if !strings.HasSuffix(e.Name(), ".go") {
			continue
		}
		b, err := os.ReadFile(filepath.Join(dir, e.Name()))
		if err != nil {
			return nil, nil, err
		}
		if pkgName == "" {
			for _, l := range strings.Split(string(b), "\n") {
				if strings.HasPrefix(l, "package ") {
					pkgName = strings.TrimSpace(strings.TrimPrefix(l, "package "))
					break
				}
			}
		}
		virt := filepath.Join(pd, "zz_vx_"+e.Name())
		ov[virt] = b
		paths[virt] = filepath.Join(dir, e.Name())
	}
	// shared primitives and oracles, instantiated for the package
	for _, name := range []string{"prims", "common"} {
		if name == "common" {
			if _, err := os.Stat(filepath.Join(dir, "nocommon")); err == nil {
				continue
			}
		}
		tmpl, err := os.ReadFile(filepath.Join(verifDir, "harness", name+".go.tmpl"))
		if err != nil {
			return nil, nil, err
		}
		src := strings.Replace(string(tmpl), "package PKG", "package "+pkgName, 1)
		virt := filepath.Join(pd, "zz_vx_"+name+".go")
		ov[virt] = []byte(src)
		gen := filepath.Join(verifDir, "build", "gen", strings.ReplaceAll(pkg, "/", "_")+"_"+name+".go")
		os.MkdirAll(filepath.Dir(gen), 0o755)
		os.WriteFile(gen, []byte(src), 0o644)
		paths[virt] = gen
	}
	return ov, paths, nil
}

type loaded struct {
	prog *ssa.Program
	pkg  *ssa.Package
	dur  time.Duration
}

func load(pkg string) (*loaded, error) {
	ov, _, err := overlayFor(pkg)
	if err != nil {
		return nil, err
	}
	t0 := time.Now()
	cfg := &packages.Config{Mode: packages.LoadAllSyntax, Dir: repoDir, Overlay: ov}
	pat := "./" + pkg
	if pkg == "root" {
		pat = "."
	}
	pkgs, err := packages.Load(cfg, pat)
	if err != nil {
		return nil, err
	}
	var errs []string
	packages.Visit(pkgs, nil, func(p *packages.Package) {
		for _, e := range p.Errors {
			errs = append(errs, e.Error())
		}
	})
	if len(errs) > 0 {
		return nil, fmt.Errorf("harness does not compile against the current tree:\n%s", strings.Join(errs, "\n"))
	}
	prog, spkgs := ssautil.AllPackages(pkgs, ssa.InstantiateGenerics|ssa.SanityCheckFunctions*0)
	prog.Build()
	return &loaded{prog: prog, pkg: spkgs[0], dur: time.Since(t0)}, nil
}

type cexFile struct {
	Harness string            `json:"harness"`
	Label   string            `json:"label"`
	Vars    map[string]string `json:"vars"`
	Path    []int             `json:"path"`
}

// replay runs the harness natively on the counterexample; reports whether the
// assertion with the given label fails in the real build.
func replay(pkg, fn string, cexPath string, label string) (bool, string) {
	ov, paths, err := overlayFor(pkg)
	if err != nil {
		return false, err.Error()
	}
	_ = ov
	pd := pkgDir(pkg)
	// test driver
	var pkgName string
	for _, b := range ov {
		for _, l := range strings.Split(string(b), "\n") {
			if strings.HasPrefix(l, "package ") {
				pkgName = strings.TrimSpace(strings.TrimPrefix(l, "package "))
			}
		}
		break
	}
	drv := fmt.Sprintf("package %s\n\nimport \"testing\"\n\nfunc TestVxReplay(t *testing.T) { vxReplayMain(t, %s) }\n", pkgName, fn)
	gen := filepath.Join(verifDir, "build", "gen", strings.ReplaceAll(pkg, "/", "_")+"_"+fn+"_replay_test.go")
	os.MkdirAll(filepath.Dir(gen), 0o755)
	os.WriteFile(gen, []byte(drv), 0o644)
	paths[filepath.Join(pd, "zz_vx_replay_test.go")] = gen
	ovj := map[string]map[string]string{"Replace": paths}
	ovb, _ := json.Marshal(ovj)
	ovf := gen + ".overlay.json"
	os.WriteFile(ovf, ovb, 0o644)
	pat := "./" + pkg
	if pkg == "root" {
		pat = "."
	}
	cmd := exec.Command("timeout", "300", "go", "test", "-vet=off", "-count=1", "-run", "^TestVxReplay$", "-overlay", ovf, pat)
	cmd.Dir = repoDir
	cmd.Env = append(os.Environ(), "VX_CEX="+cexPath)
	out, _ := cmd.CombinedOutput()
	s := string(out)
	failed := strings.Contains(s, "VXFAIL "+label+"\n") || strings.Contains(s, "VXFAIL "+label+" ")
	return failed, s
}

type harnessReport struct {
	Pkg, Func string
	Res       *symgo.Result
	Confirmed []confirmed
	Spurious  []string
	LoadTime  time.Duration
}

type confirmed struct {
	Label  string
	Replay string
}

func main() {
	setupEnv()
	if r := os.Getenv("VX_REPO"); r != "" {
		repoDir = r
	}
	if r := os.Getenv("VX_VERIF"); r != "" {
		verifDir = r
	}
	if len(os.Args) < 2 {
		fmt.Fprintln(os.Stderr, "usage: vx check|run ...")
		os.Exit(2)
	}
	switch os.Args[1] {
	case "check":
		os.Exit(cmdCheck(os.Args[2:]))
	case "run":
		os.Exit(cmdRun(os.Args[2:]))
	}
	fmt.Fprintln(os.Stderr, "unknown command")
	os.Exit(2)
}

func solverKind(s string) symgo.SolverKind {
	switch s {
	case "z3old":
		return symgo.SolverZ3Old
	case "cvc5":
		return symgo.SolverCVC5
	}
	return symgo.SolverZ3New
}

func cmdRun(args []string) int {
	fs := flag.NewFlagSet("run", flag.ExitOnError)
	pkg := fs.String("pkg", "internal", "harness package dir")
	fn := fs.String("func", "", "harness function")
	sums := fs.String("sum", "", "comma separated summary harness functions")
	specs := fs.String("spec", "", "comma separated spec summary harnesses")
	lemmas := fs.String("lemma", "", "comma separated lemma harnesses")
	workers := fs.Int("workers", 0, "")
	maxPaths := fs.Int("maxpaths", 0, "")
	solver := fs.String("solver", "z3new", "")
	qt := fs.Duration("qtimeout", 20*time.Second, "")
	doReplay := fs.Bool("replay", true, "")
	deadline := fs.Duration("deadline", 0, "")
	prof := fs.String("cpuprofile", "", "")
	labels := fs.String("labels", "", "comma separated label prefixes")
	fs.Parse(args)
	if *prof != "" {
		f, _ := os.Create(*prof)
		pprof.StartCPUProfile(f)
		defer pprof.StopCPUProfile()
	}
	ld, err := load(*pkg)
	if err != nil {
		fmt.Println("INCONCLUSIVE reason=" + err.Error())
		return 2
	}
	fmt.Printf("loaded in %v\n", ld.dur)
	cfg := symgo.Config{Workers: *workers, MaxPaths: *maxPaths, Solver: solverKind(*solver), QueryTimeout: *qt, ForkStats: os.Getenv("VX_FORKSTATS") != ""}
	if *deadline > 0 {
		cfg.Deadline = time.Now().Add(*deadline)
	}
	if *labels != "" {
		cfg.Labels = strings.Split(*labels, ",")
	}
	var ss sumSet
	if *sums != "" {
		ss.Sums = strings.Split(*sums, ",")
	}
	if *specs != "" {
		ss.Specs = strings.Split(*specs, ",")
	}
	if *lemmas != "" {
		ss.Lemmas = strings.Split(*lemmas, ",")
	}
	rep, err := runHarness(ld, *pkg, *fn, ss, cfg, nil, *doReplay, "dev")
	if err != nil {
		fmt.Println("INCONCLUSIVE reason=" + err.Error())
		return 2
	}
	printReport(rep)
	if len(rep.Confirmed) > 0 {
		return 1
	}
	if len(rep.Res.Inconclusive) > 0 || len(rep.Spurious) > 0 {
		return 2
	}
	return 0
}

func printReport(rep *harnessReport) {
	r := rep.Res
	fmt.Printf("harness %s.%s: paths=%d infeasible=%d decisions=%d instrs=%d queries=%d (sat %d unsat %d unknown %d) solver=%v wall=%v depth=%d\n",
		rep.Pkg, rep.Func, r.Paths, r.Infeasible, r.Decisions, r.Instrs, r.Queries, r.Sat, r.Unsat, r.Unknown, r.SolverTime.Round(time.Millisecond), r.Wall.Round(time.Millisecond), r.MaxDepth)
	fmt.Printf("  query cache hits so far: %d\n", symgo.CacheHitsTotal)
	var labels []string
	for l := range r.Labels {
		labels = append(labels, l)
	}
	sort.Strings(labels)
	for _, l := range labels {
		s := r.Labels[l]
		fmt.Printf("  assert %-50s reached=%d queries=%d violated=%d known=%d\n", l, s.Checked, s.Queries, s.Violated, s.KnownHits)
	}
	var covers []string
	for c := range r.Covers {
		covers = append(covers, c)
	}
	sort.Strings(covers)
	for _, c := range covers {
		fmt.Printf("  cover  %-50s %d\n", c, r.Covers[c])
	}
	for _, in := range r.Inconclusive {
		fmt.Printf("  INCONCLUSIVE: %s\n", in)
	}
	if len(r.ForkSites) > 0 {
		type kv struct {
			k string
			v int
		}
		var l []kv
		for k, v := range r.ForkSites {
			l = append(l, kv{k, v})
		}
		sort.Slice(l, func(i, j int) bool { return l[i].v > l[j].v })
		for i, e := range l {
			if i >= 25 {
				break
			}
			fmt.Printf("  fork %6d  %s\n", e.v, e.k)
		}
	}
	for _, v := range r.Violations {
		fmt.Printf("  cex %s: %s\n", v.Label, modelString(v.Model))
	}
	for _, s := range rep.Spurious {
		fmt.Printf("  SPURIOUS (not reproduced natively): %s\n", s)
	}
	for _, c := range rep.Confirmed {
		fmt.Printf("  CONFIRMED %s replay=%s\n", c.Label, c.Replay)
	}
}

func modelString(m symgo.Model) string {
	var ks []string
	for k := range m {
		if !strings.Contains(k, "!") {
			ks = append(ks, k)
		}
	}
	sort.Strings(ks)
	var sb strings.Builder
	for _, k := range ks {
		fmt.Fprintf(&sb, "%s=%s ", k, m[k])
	}
	return sb.String()
}

type sumSet struct {
	Sums, Specs, Lemmas []string
}

var sumCache = map[string]map[string]*symgo.Summary{}

func runHarness(ld *loaded, pkg, fn string, ss sumSet, cfg symgo.Config, known []symgo.KnownFinding, doReplay bool, prop string) (*harnessReport, error) {
	sums := ss.Sums
	f := ld.pkg.Func(fn)
	if f == nil {
		return nil, fmt.Errorf("harness function %s not found in %s", fn, pkg)
	}
	cacheKey := pkg + "|" + strings.Join(ss.Sums, ",") + "|" + strings.Join(ss.Specs, ",") + "|" + strings.Join(ss.Lemmas, ",")
	summaries := sumCache[cacheKey]
	if summaries != nil {
		sums = nil
	} else {
		summaries = map[string]*symgo.Summary{}
	}
	for _, s := range sums {
		sf := ld.pkg.Func(s)
		if sf == nil {
			return nil, fmt.Errorf("summary harness %s not found", s)
		}
		scfg := cfg
		scfg.Known = nil
		ex := symgo.NewExplorer(ld.prog, sf, scfg)
		ex.SetSummaries(summaries)
		r := ex.Run()
		if len(r.Inconclusive) > 0 {
			return nil, fmt.Errorf("summary %s inconclusive: %s", s, strings.Join(r.Inconclusive, "; "))
		}
		for name, sm := range r.Summaries {
			if sm.Bad != "" {
				return nil, fmt.Errorf("summary %s unusable: %s", name, sm.Bad)
			}
			summaries[name] = sm
			fmt.Printf("summary %-28s paths=%d queries=%d wall=%v\n", name, r.Paths, r.Queries, r.Wall.Round(time.Millisecond))
		}
	}
	if sumCache[cacheKey] == nil {
		// lemmas: the real code (merged summaries) equals the specification summaries
		for _, l := range ss.Lemmas {
			lf := ld.pkg.Func(l)
			if lf == nil {
				return nil, fmt.Errorf("lemma harness %s not found", l)
			}
			lcfg := cfg
			lcfg.Known = nil
			ex := symgo.NewExplorer(ld.prog, lf, lcfg)
			ex.SetSummaries(summaries)
			r := ex.Run()
			if len(r.Inconclusive) > 0 || len(r.Violations) > 0 || r.Paths == 0 {
				return nil, fmt.Errorf("lemma %s failed: violations=%d inconclusive=%v", l, len(r.Violations), r.Inconclusive)
			}
			fmt.Printf("lemma   %-28s proved: paths=%d queries=%d wall=%v\n", l, r.Paths, r.Queries, r.Wall.Round(time.Millisecond))
		}
		if len(ss.Specs) > 0 {
			specs := map[string]*symgo.Summary{}
			for k, v := range summaries {
				specs[k] = v
			}
			for _, s := range ss.Specs {
				sf := ld.pkg.Func(s)
				if sf == nil {
					return nil, fmt.Errorf("spec summary harness %s not found", s)
				}
				scfg := cfg
				scfg.Known = nil
				ex := symgo.NewExplorer(ld.prog, sf, scfg)
				r := ex.Run()
				if len(r.Inconclusive) > 0 {
					return nil, fmt.Errorf("spec summary %s inconclusive: %s", s, strings.Join(r.Inconclusive, "; "))
				}
				for name, sm := range r.Summaries {
					if sm.Bad != "" {
						return nil, fmt.Errorf("spec summary %s unusable: %s", name, sm.Bad)
					}
					specs[name] = sm
				}
			}
			summaries = specs
		}
		sumCache[cacheKey] = summaries
	}
	cfg.Known = nil
	for _, k := range known {
		if k.Harness == "" || k.Harness == fn {
			cfg.Known = append(cfg.Known, k)
		}
	}
	ex := symgo.NewExplorer(ld.prog, f, cfg)
	ex.SetSummaries(summaries)
	res := ex.Run()
	rep := &harnessReport{Pkg: pkg, Func: fn, Res: res, LoadTime: ld.dur}
	if doReplay {
		seen := map[string]bool{}
		for idx, v := range res.Violations {
			if seen[v.Label] {
				continue
			}
			dir := filepath.Join(verifDir, "replays", prop, fmt.Sprintf("%s-%d", fn, idx))
			os.MkdirAll(dir, 0o755)
			cf := cexFile{Harness: fn, Label: v.Label, Vars: map[string]string{}, Path: v.Path}
			for k, val := range v.Model {
				cf.Vars[k] = val.String()
			}
			b, _ := json.MarshalIndent(cf, "", " ")
			cp := filepath.Join(dir, "cex.json")
			os.WriteFile(cp, b, 0o644)
			ok, out := replay(pkg, fn, cp, v.Label)
			os.WriteFile(filepath.Join(dir, "replay.log"), []byte(out), 0o644)
			if ok {
				seen[v.Label] = true
				rep.Confirmed = append(rep.Confirmed, confirmed{v.Label, dir})
			} else {
				rep.Spurious = append(rep.Spurious, fmt.Sprintf("%s (%s)", v.Label, dir))
			}
		}
	}
	return rep, nil
}

func cmdCheck(args []string) int {
	fs := flag.NewFlagSet("check", flag.ExitOnError)
	id := fs.String("id", "", "property id")
	tier := fs.String("tier", os.Getenv("VERIF_TIER"), "quick|thorough")
	workers := fs.Int("workers", 0, "")
	fs.Parse(args)
	if *tier == "" {
		*tier = "quick"
	}
	t0 := time.Now()
	var specs []CheckSpec
	b, err := os.ReadFile(filepath.Join(verifDir, "checks.json"))
	if err != nil {
		fmt.Println("INCONCLUSIVE property=" + *id + " reason=" + err.Error())
		return 2
	}
	if err := json.Unmarshal(b, &specs); err != nil {
		fmt.Println("INCONCLUSIVE property=" + *id + " reason=checks.json: " + err.Error())
		return 2
	}
	var spec *CheckSpec
	for i := range specs {
		if specs[i].Property == *id {
			spec = &specs[i]
		}
	}
	if spec == nil {
		fmt.Println("INCONCLUSIVE property=" + *id + " reason=no check registered")
		return 2
	}
	var kf KnownFile
	if b, err := os.ReadFile(filepath.Join(verifDir, "known_findings.json")); err == nil {
		if err := json.Unmarshal(b, &kf); err != nil {
			fmt.Println("INCONCLUSIVE property=" + *id + " reason=known_findings.json: " + err.Error())
			return 2
		}
	}
	var known []symgo.KnownFinding
	for _, k := range kf.Findings {
		if k.Property == *id {
			known = append(known, k)
		}
	}
	cfg := symgo.Config{Workers: *workers, QueryTimeout: 20 * time.Second}
	if *tier == "thorough" {
		cfg.MaxPaths = 3000000
		cfg.QueryTimeout = 120 * time.Second
	}
	os.Setenv("VX_TIER", *tier)
	os.Setenv("VX_PROP", *id)
	var reports []*harnessReport
	var inconclusive []string
	loadedPkgs := map[string]*loaded{}
	for _, h := range spec.Harnesses {
		if h.Thorough && *tier != "thorough" {
			continue
		}
		ld := loadedPkgs[h.Pkg]
		if ld == nil {
			ld, err = load(h.Pkg)
			if err != nil {
				inconclusive = append(inconclusive, err.Error())
				continue
			}
			loadedPkgs[h.Pkg] = ld
		}
		for _, fn := range h.Funcs {
			c := cfg
			c.Labels = h.Labels
			rep, err := runHarness(ld, h.Pkg, fn, sumSet{h.Summaries, h.Specs, h.Lemmas}, c, known, true, *id)
			if err != nil {
				inconclusive = append(inconclusive, fn+": "+err.Error())
				continue
			}
			printReport(rep)
			reports = append(reports, rep)
			for _, in := range rep.Res.Inconclusive {
				inconclusive = append(inconclusive, fn+": "+in)
			}
			for _, sp := range rep.Spurious {
				inconclusive = append(inconclusive, fn+": counterexample not reproduced natively (encoder/stub defect): "+sp)
			}
			for _, cv := range h.Covers {
				if rep.Res.Covers[cv] == 0 {
					if strings.HasPrefix(cv, fn+"/") || !strings.Contains(cv, "/") {
						inconclusive = append(inconclusive, fn+": reachability witness '"+cv+"' not reached (vacuous harness)")
					}
				}
			}
		}
	}
	// outcome
	violations := 0
	var replayDirs []string
	for _, rep := range reports {
		for _, c := range rep.Confirmed {
			violations++
			replayDirs = append(replayDirs, c.Replay)
			fmt.Printf("VIOLATION property=%s replay=%s\n", *id, c.Replay)
		}
	}
	knownSeen := map[string]bool{}
	for _, rep := range reports {
		for kid := range rep.Res.KnownSeen {
			knownSeen[kid] = true
		}
	}
	for _, k := range known {
		if knownSeen[k.ID] {
			fmt.Printf("KNOWN-FINDING: property=%s %s: %s\n", *id, k.ID, k.What)
		}
	}
	writeEvidence(spec, *tier, reports, inconclusive, violations, knownSeen, time.Since(t0))
	if violations > 0 {
		return 1
	}
	if len(inconclusive) > 0 {
		for _, in := range inconclusive {
			fmt.Printf("INCONCLUSIVE property=%s reason=%s\n", *id, strings.ReplaceAll(in, "\n", " | "))
		}
		return 2
	}
	fmt.Printf("OK property=%s tier=%s wall=%v\n", *id, *tier, time.Since(t0).Round(time.Millisecond))
	return 0
}

func writeEvidence(spec *CheckSpec, tier string, reports []*harnessReport, inconclusive []string, violations int, knownSeen map[string]bool, wall time.Duration) {
	if os.Getenv("VERIF_NOEVIDENCE") != "" {
		return // development runs against scratch worktrees must not touch /verif/evidence
	}
	states, transitions, queries, sat, unsat, unknown, validated := 0, 0, 0, 0, 0, 0, 0
	var instrs int64
	var solverT time.Duration
	funcs := map[string]int{}
	exts := map[string]int{}
	var samples []interface{}
	harnesses := []interface{}{}
	covers := map[string]int{}
	labels := map[string]interface{}{}
	for _, rep := range reports {
		r := rep.Res
		states += r.Paths
		transitions += r.Decisions
		queries += r.Queries
		sat += r.Sat
		unsat += r.Unsat
		unknown += r.Unknown
		instrs += r.Instrs
		solverT += r.SolverTime
		validated += len(rep.Confirmed) + len(rep.Spurious)
		for k, v := range r.Funcs {
			funcs[k] += v
		}
		for k, v := range r.Externals {
			exts[k] += v
		}
		for _, s := range r.Samples {
			samples = append(samples, map[string]string{"harness": rep.Func, "path": s})
		}
		for k, v := range r.Covers {
			covers[k] += v
		}
		for k, v := range r.Labels {
			labels[rep.Func+":"+k] = map[string]int{"paths_reaching": v.Checked, "solver_queries": v.Queries, "violated_on_paths": v.Violated, "known_finding_hits": v.KnownHits}
		}
		harnesses = append(harnesses, map[string]interface{}{
			"package": rep.Pkg, "function": rep.Func, "paths": r.Paths, "infeasible_prefixes": r.Infeasible,
			"decisions": r.Decisions, "max_depth": r.MaxDepth, "instructions": r.Instrs, "queries": r.Queries,
			"solver_s": r.SolverTime.Seconds(), "wall_s": r.Wall.Seconds(), "load_s": rep.LoadTime.Seconds(),
		})
	}
	if len(samples) == 0 {
		samples = append(samples, "no path completed")
	}
	var fnames []string
	for k := range funcs {
		fnames = append(fnames, k)
	}
	sort.Strings(fnames)
	var target, std []string
	for _, f := range fnames {
		if strings.Contains(f, "bartventer/httpcache") {
			if !strings.Contains(f, "vx") && !strings.Contains(f, "Vx") {
				target = append(target, f)
			}
		} else {
			std = append(std, f)
		}
	}
	var enames []string
	for k := range exts {
		enames = append(enames, k)
	}
	sort.Strings(enames)
	var ks []string
	for k := range knownSeen {
		ks = append(ks, k)
	}
	sort.Strings(ks)
	if states == 0 {
		states = 0
	}
	ev := map[string]interface{}{
		"property_id": spec.Property,
		"tier":        tier,
		"seed":        0,
		"level":       "model_checking",
		"coverage": map[string]interface{}{
			"states":                        states,
			"transitions":                   transitions,
			"traces_validated_against_impl": validated,
			"samples":                       samples,
			"evaluations":                   queries,
			"distinct_nontrivial":           states,
			"rule":                          "states = feasible symbolic paths of the harness completed (each covers all values of the symbolic variables satisfying its path condition); transitions = symbolic branch decisions; evaluations = SMT queries discharged; traces_validated = solver models replayed against the natively compiled code",
			"exhaustive":                    len(inconclusive) == 0,
			"harnesses":                     harnesses,
			"functions_encoded_target":      target,
			"functions_encoded_std":         std,
			"intercepts_used":               enames,
			"bounds":                        spec.Bounds,
			"queries":                       map[string]int{"sat": sat, "unsat": unsat, "unknown": unknown},
			"solver":                        "z3 5.1.0 (z3-new -in), wrap-LIA encoding",
			"solver_time_s":                 solverT.Seconds(),
			"instructions_interpreted":      instrs,
			"assertions":                    labels,
			"covers_reached":                covers,
			"known_findings_matched":        ks,
			"inconclusive":                  inconclusive,
		},
		"assumptions": spec.Assumptions,
		"wall_s":      wall.Seconds(),
		"violations":  violations,
	}
	os.MkdirAll(filepath.Join(verifDir, "evidence"), 0o755)
	b, _ := json.MarshalIndent(ev, "", " ")
	os.WriteFile(filepath.Join(verifDir, "evidence", spec.Property+".json"), b, 0o644)
}

// Copyright 2013 The Go Authors. All rights reserved.
// Use of this source code is governed by a BSD-style
// license that can be found in the LICENSE.interp file.
//
// symgo: a symbolic executor for go/ssa, forked from
// golang.org/x/tools/go/ssa/interp (v0.29.0).  Scalar leaves may be SMT terms;
// heap shape stays concrete per path; a branch on a symbolic condition forks the
// path (prefix re-execution, see explore.go).

package symgo

import (
	mrand "math/rand/v2"
	"fmt"
	"go/token"
	"go/types"
	"runtime"
	"slices"
	"strings"

	"golang.org/x/tools/go/ssa"
)

type continuation int

const (
	kNext continuation = iota
	kReturn
	kJump
)

type interpreter struct {
	ex                 *Explorer
	p                  *pathState
	prog               *ssa.Program
	globals            map[*ssa.Global]*value
	initDone           map[*ssa.Package]bool
	runtimeErrorString types.Type
	sizes              types.Sizes
	sched              *scheduler
	cur                *frame // innermost frame of the running goroutine (diagnostics)
	replace            map[string]value
	depth              int
	onceDone           map[*value]bool
	uniq               map[value]*value
	inStdInit          bool
	fnvStreams         map[*value][]value
	digests            map[string]array
	replacerPairs      map[*value][]value
	chacha             map[*value]*mrand.ChaCha8
	syncMaps           map[*value]*omap
	harnessAlias       map[string]string
	mergeable          map[string]bool
	noMerge            bool
	mutexes            map[*value]*mutexState
}

type deferred struct {
	fn    value
	args  []value
	instr *ssa.Defer
	tail  *deferred
}

type frame struct {
	i                *interpreter
	caller           *frame
	fn               *ssa.Function
	block, prevBlock *ssa.BasicBlock
	env              map[ssa.Value]value
	locals           []value
	defers           *deferred
	result           value
	panicking        bool
	panic            interface{}
	phitemps         []value
	pos              token.Pos
	mergedPhis       []value
	hasMerged        bool
}

func (i *interpreter) where() string {
	fr := i.cur
	if fr == nil || fr.fn == nil {
		return ""
	}
	var parts []string
	for f, n := fr, 0; f != nil && n < 6; f, n = f.caller, n+1 {
		s := f.fn.String()
		if f.pos.IsValid() {
			pos := i.prog.Fset.Position(f.pos)
			s += fmt.Sprintf(" (%s:%d)", shortPath(pos.Filename), pos.Line)
		}
		parts = append(parts, s)
	}
	return " [at " + strings.Join(parts, " <- ") + "]"
}

func shortPath(p string) string {
	if i := strings.LastIndex(p, "/"); i >= 0 {
		if j := strings.LastIndex(p[:i], "/"); j >= 0 {
			return p[j+1:]
		}
	}
	return p
}

func (fr *frame) get(key ssa.Value) value {
	switch key := key.(type) {
	case nil:
		return nil
	case *ssa.Function, *ssa.Builtin:
		return key
	case *ssa.Const:
		return constValue(key)
	case *ssa.Global:
		return fr.i.globalAddr(key)
	}
	if r, ok := fr.env[key]; ok {
		return r
	}
	panic(fmt.Sprintf("get: no value for %T: %v", key, key.Name()))
}

func (fr *frame) decide(c *Term) bool { return fr.i.p.branch(c) }

func (fr *frame) runDefer(d *deferred) {
	var ok bool
	defer func() {
		if !ok {
			r := recover()
			if isEngineControl(r) {
				panic(r)
			}
			fr.panicking = true
			fr.panic = r
		}
	}()
	call(fr.i, fr, d.instr.Pos(), d.fn, d.args)
	ok = true
}

func (fr *frame) runDefers() {
	for d := fr.defers; d != nil; d = d.tail {
		fr.runDefer(d)
	}
	fr.defers = nil
	if fr.panicking {
		panic(fr.panic)
	}
}

// isEngineControl: panics that must never be observed by the code under test.
func isEngineControl(r interface{}) bool {
	switch r := r.(type) {
	case pathEnd, engineAbort, goexit:
		return true
	case runtimeError, targetPanic:
		return false
	case runtime.Error:
		_ = r
		return true // a native runtime error is an engine defect, not a target panic
	case string:
		return true // interpreter-internal panic(string)
	case nil:
		return false
	}
	return true
}

func lookupMethod(i *interpreter, typ types.Type, meth *types.Func) *ssa.Function {
	return i.prog.LookupMethod(typ, meth.Pkg(), meth.Name())
}

func nilDeref() runtimeError {
	return runtimeErrorf("invalid memory address or nil pointer dereference")
}

// indexValue converts an index operand to a concrete int, forking on symbolic
// indices is handled by callers; here only concrete or constant terms.
func (fr *frame) concreteIndex(v value, what string) (int64, bool) {
	if t, ok := v.(*Term); ok {
		if t.op == OpConst {
			return t.c.Int64(), true
		}
		return 0, false
	}
	return asInt64(v), true
}

// boundsCheck makes sure 0 <= idx < n for a symbolic index, forking into a
// panicking path when the violation is feasible.
func (fr *frame) boundsCheck(idx *Term, n int) {
	inb := mkAnd(mkLe(mkConstI(0), idx), mkLt(idx, mkConstI(int64(n))))
	if !fr.i.p.branch(inb) {
		panic(runtimeErrorf("index out of range [symbolic] with length %d", n))
	}
}

func visitInstr(fr *frame, instr ssa.Instruction) continuation {
	switch instr := instr.(type) {
	case *ssa.DebugRef:
		// no-op

	case *ssa.UnOp:
		fr.env[instr] = fr.unop(instr, fr.get(instr.X))

	case *ssa.BinOp:
		fr.env[instr] = binop(instr.Op, instr.X.Type(), fr.get(instr.X), fr.get(instr.Y))

	case *ssa.Call:
		fn, args := prepareCall(fr, &instr.Call)
		fr.pos = instr.Pos()
		fr.env[instr] = call(fr.i, fr, instr.Pos(), fn, args)

	case *ssa.ChangeInterface:
		fr.env[instr] = fr.get(instr.X)

	case *ssa.ChangeType:
		fr.env[instr] = fr.get(instr.X)

	case *ssa.Convert:
		fr.env[instr] = conv(fr.i.p, instr.Type(), instr.X.Type(), fr.get(instr.X))

	case *ssa.SliceToArrayPointer:
		fr.env[instr] = sliceToArrayPointer(instr.Type(), instr.X.Type(), fr.get(instr.X))

	case *ssa.MakeInterface:
		fr.env[instr] = iface{t: instr.X.Type(), v: fr.get(instr.X)}

	case *ssa.Extract:
		fr.env[instr] = fr.get(instr.Tuple).(tuple)[instr.Index]

	case *ssa.Slice:
		fr.env[instr] = fr.slice(fr.get(instr.X), fr.get(instr.Low), fr.get(instr.High), fr.get(instr.Max))

	case *ssa.Return:
		switch len(instr.Results) {
		case 0:
		case 1:
			fr.result = fr.get(instr.Results[0])
		default:
			var res []value
			for _, r := range instr.Results {
				res = append(res, fr.get(r))
			}
			fr.result = tuple(res)
		}
		fr.block = nil
		return kReturn

	case *ssa.RunDefers:
		fr.runDefers()

	case *ssa.Panic:
		panic(targetPanic{fr.get(instr.X)})

	case *ssa.Send:
		fr.i.sched.send(fr, fr.get(instr.Chan).(*gochan), fr.get(instr.X))

	case *ssa.Store:
		fr.store(mustDeref(instr.Addr.Type()), fr.get(instr.Addr), fr.get(instr.Val))

	case *ssa.If:
		succ := 1
		switch c := fr.get(instr.Cond).(type) {
		case bool:
			if c {
				succ = 0
			}
		case *Term:
			fr.pos = instr.Pos()
			if fr.tryIfConvert(instr, c) {
				return kJump
			}
			if fr.i.p.branch(c) {
				succ = 0
			}
		default:
			panic(fmt.Sprintf("If: condition of type %T", c))
		}
		fr.prevBlock, fr.block = fr.block, fr.block.Succs[succ]
		return kJump

	case *ssa.Jump:
		fr.prevBlock, fr.block = fr.block, fr.block.Succs[0]
		return kJump

	case *ssa.Defer:
		fn, args := prepareCall(fr, &instr.Call)
		defers := &fr.defers
		if into := fr.get(instr.DeferStack); into != nil {
			defers = into.(**deferred)
		}
		*defers = &deferred{fn: fn, args: args, instr: instr, tail: *defers}

	case *ssa.Go:
		fn, args := prepareCall(fr, &instr.Call)
		fr.i.sched.spawn(fr.i, instr.Pos(), fn, args)

	case *ssa.MakeChan:
		fr.env[instr] = &gochan{cap: int(asInt64(fr.get(instr.Size))), elem: instr.Type().Underlying().(*types.Chan).Elem()}

	case *ssa.Alloc:
		var addr *value
		if instr.Heap {
			addr = new(value)
			fr.env[instr] = addr
		} else {
			addr = fr.env[instr].(*value)
		}
		*addr = zero(mustDeref(instr.Type()))

	case *ssa.MakeSlice:
		c, ok1 := fr.concreteIndex(fr.get(instr.Cap), "cap")
		l, ok2 := fr.concreteIndex(fr.get(instr.Len), "len")
		if !ok1 || !ok2 {
			abort("make([]T) with symbolic length")
		}
		if l < 0 || c < l {
			panic(runtimeErrorf("makeslice: len out of range"))
		}
		slice := make([]value, c)
		tElt := instr.Type().Underlying().(*types.Slice).Elem()
		for i := range slice {
			slice[i] = zero(tElt)
		}
		fr.env[instr] = slice[:l]

	case *ssa.MakeMap:
		fr.env[instr] = newOmap(instr.Type().Underlying().(*types.Map).Key())

	case *ssa.Range:
		fr.env[instr] = fr.rangeIter(fr.get(instr.X), instr.X.Type())

	case *ssa.Next:
		fr.env[instr] = fr.get(instr.Iter).(iter).next()

	case *ssa.FieldAddr:
		x := fr.get(instr.X).(*value)
		if x == nil {
			fr.pos = instr.Pos()
			panic(nilDeref())
		}
		fr.env[instr] = &(*x).(structure)[instr.Field]

	case *ssa.Field:
		fr.env[instr] = fr.get(instr.X).(structure)[instr.Field]

	case *ssa.IndexAddr:
		fr.pos = instr.Pos()
		x := fr.get(instr.X)
		idx := fr.get(instr.Index)
		var elems []value
		switch x := x.(type) {
		case []value:
			elems = x
		case *value: // *array
			if x == nil {
				panic(nilDeref())
			}
			elems = (*x).(array)
		default:
			panic(fmt.Sprintf("unexpected x type in IndexAddr: %T", x))
		}
		if n, ok := fr.concreteIndex(idx, "index"); ok {
			if n < 0 || n >= int64(len(elems)) {
				panic(runtimeErrorf("index out of range [%d] with length %d", n, len(elems)))
			}
			fr.env[instr] = &elems[n]
		} else {
			t := idx.(*Term)
			fr.boundsCheck(t, len(elems))
			fr.env[instr] = &elemRef{elems: elems, idx: t}
		}

	case *ssa.Index:
		fr.pos = instr.Pos()
		x := fr.get(instr.X)
		idx := fr.get(instr.Index)
		var elems []value
		switch x := x.(type) {
		case array:
			elems = x
		case string, sstr:
			if n, ok := fr.concreteIndex(idx, "index"); ok {
				if n < 0 || n >= int64(strLen(x)) {
					panic(runtimeErrorf("index out of range [%d] with length %d", n, strLen(x)))
				}
				fr.env[instr] = strIndex(x, int(n))
				return kNext
			}
			elems = strBytes(x)
		default:
			if isStringLike(x) {
				abort("index of opaque string %s", describeString(x))
			}
			panic(fmt.Sprintf("unexpected x type in Index: %T", x))
		}
		if n, ok := fr.concreteIndex(idx, "index"); ok {
			if n < 0 || n >= int64(len(elems)) {
				panic(runtimeErrorf("index out of range [%d] with length %d", n, len(elems)))
			}
			fr.env[instr] = elems[n]
		} else {
			t := idx.(*Term)
			fr.boundsCheck(t, len(elems))
			fr.env[instr] = selectElem(elems, t, instr.Type())
		}

	case *ssa.Lookup:
		fr.pos = instr.Pos()
		fr.env[instr] = fr.lookup(instr, fr.get(instr.X), fr.get(instr.Index))

	case *ssa.MapUpdate:
		fr.pos = instr.Pos()
		m := fr.get(instr.Map).(*omap)
		if m == nil {
			panic(runtimeErrorf("assignment to entry in nil map"))
		}
		m.insert(fr.get(instr.Key), fr.get(instr.Value), fr.decide)

	case *ssa.TypeAssert:
		fr.pos = instr.Pos()
		fr.env[instr] = typeAssert(fr.i, instr, fr.get(instr.X).(iface))

	case *ssa.MakeClosure:
		var bindings []value
		for _, binding := range instr.Bindings {
			bindings = append(bindings, fr.get(binding))
		}
		fr.env[instr] = &closure{instr.Fn.(*ssa.Function), bindings}

	case *ssa.Phi:
		panic("unreachable: phi")

	case *ssa.Select:
		fr.pos = instr.Pos()
		fr.env[instr] = fr.i.sched.selectOp(fr, instr)

	default:
		panic(fmt.Sprintf("unexpected instruction: %T", instr))
	}
	return kNext
}

func prepareCall(fr *frame, call *ssa.CallCommon) (fn value, args []value) {
	v := fr.get(call.Value)
	if call.Method == nil {
		fn = v
	} else {
		recv := v.(iface)
		if recv.t == nil {
			fr.pos = call.Pos()
			panic(nilDeref())
		}
		if f := lookupMethod(fr.i, recv.t, call.Method); f == nil {
			panic(fmt.Sprintf("method set for dynamic type %v does not contain %s", recv.t, call.Method))
		} else {
			fn = f
		}
		args = append(args, recv.v)
	}
	for _, arg := range call.Args {
		args = append(args, fr.get(arg))
	}
	return
}

func call(i *interpreter, caller *frame, callpos token.Pos, fn value, args []value) value {
	switch fn := fn.(type) {
	case *ssa.Function:
		if fn == nil {
			panic(nilDeref())
		}
		return callSSA(i, caller, callpos, fn, args, nil)
	case *closure:
		return callSSA(i, caller, callpos, fn.Fn, args, fn.Env)
	case *ssa.Builtin:
		return callBuiltin(caller, callpos, fn, args)
	}
	panic(fmt.Sprintf("cannot call %T", fn))
}

func callSSA(i *interpreter, caller *frame, callpos token.Pos, fn *ssa.Function, args []value, env []value) value {
	fr := &frame{i: i, caller: caller, fn: fn}
	saved := i.cur
	i.cur = fr
	defer func() { i.cur = saved }()
	i.depth++
	defer func() { i.depth-- }()
	if i.depth > 2000 {
		abort("call depth exceeded")
	}
	if fn.Parent() == nil {
		name := fn.String()
		if prim, ok := isVxPrim(fn); ok {
			i.p.exts[prim]++
			pf := vxPrims[prim]
			if pf == nil {
				pf = vxPrimsExtra[prim]
			}
			r, _ := pf(fr, args)
			return r
		}
		if rep, ok := i.replace[name]; ok {
			i.p.exts["replaced:"+name]++
			return call(i, caller, callpos, rep, args)
		}
		if strings.HasPrefix(name, "unique.Make[") {
			key := args[0]
			if !goComparableKey(key) {
				abort("unique.Make of %T", key)
			}
			cell, ok := i.uniq[key]
			if !ok {
				c := key
				cell = &c
				i.uniq[key] = cell
			}
			return structure{cell}
		}
		if ext := externals[name]; ext != nil {
			if r, handled := ext(fr, args); handled {
				i.p.exts[name]++
				return r
			}
		}
		if s := i.ex.sums[name]; s != nil && anySymbolic(args) {
			if r, ok := s.apply(args); ok {
				i.p.exts["summary:"+name]++
				return r
			}
		}
		if fn.Blocks == nil {
			abort("no code for function: %s", name)
		}
		if i.mergeable[name] && !i.noMerge {
			i.p.exts["merged:"+name]++
			return i.callMerged(func() value {
				saved := i.noMerge
				i.noMerge = true // the body itself runs un-merged; nested mergeable callees merge again
				defer func() { i.noMerge = saved }()
				return callSSABody(i, fr, fn, args, env)
			})
		}
		if fn.Pkg != nil && fn.Name() == "init" && fn.Signature.Recv() == nil {
			if !i.allowInit(fn.Pkg) {
				return nil
			}
		}
		i.p.funcs[name]++
	}
	return callSSABody(i, fr, fn, args, env)
}

func callSSABody(i *interpreter, fr *frame, fn *ssa.Function, args []value, env []value) value {
	if fn.TypeParams().Len() > 0 && len(fn.TypeArgs()) == 0 {
		abort("uninstantiated generic function %s", fn)
	}
	i.noMerge = false

	fr.env = make(map[ssa.Value]value)
	fr.block = fn.Blocks[0]
	fr.locals = make([]value, len(fn.Locals))
	for i, l := range fn.Locals {
		fr.locals[i] = zero(mustDeref(l.Type()))
		fr.env[l] = &fr.locals[i]
	}
	for i, p := range fn.Params {
		fr.env[p] = args[i]
	}
	for i, fv := range fn.FreeVars {
		fr.env[fv] = env[i]
	}
	for fr.block != nil {
		runFrame(fr)
	}
	return fr.result
}

func anySymbolic(args []value) bool {
	for _, a := range args {
		switch a := a.(type) {
		case *Term:
			return true
		case structure:
			if anySymbolic(a) {
				return true
			}
		}
	}
	return false
}

func runFrame(fr *frame) {
	defer func() {
		if fr.block == nil {
			return // normal return
		}
		r := recover()
		if re, ok := r.(runtime.Error); ok {
			if _, mine := r.(runtimeError); !mine {
				buf := make([]byte, 16000)
				n := runtime.Stack(buf, false)
				r = engineAbort{"engine defect: " + re.Error() + fr.i.where() + "\n" + trimStack(string(buf[:n]))}
			}
		}
		if s, ok := r.(string); ok {
			r = engineAbort{"interpreter: " + s + fr.i.where()}
		}
		if re, ok := r.(runtimeError); ok && re.where == "" {
			re.where = fr.i.where()
			r = re
		}
		if isEngineControl(r) {
			panic(r)
		}
		fr.panicking = true
		fr.panic = r
		fr.runDefers()
		fr.block = fr.fn.Recover
	}()

	p := fr.i.p
	for {
		nonPhis := executePhis(fr)
		for _, instr := range nonPhis {
			p.steps++
			if p.steps > p.ex.cfg.StepBudget {
				abort("step budget (unwinding bound) of %d instructions exceeded", p.ex.cfg.StepBudget)
			}
			if visitInstr(fr, instr) == kReturn {
				return
			}
		}
	}
}

func executePhis(fr *frame) []ssa.Instruction {
	firstNonPhi := -1
	for i, instr := range fr.block.Instrs {
		if _, ok := instr.(*ssa.Phi); !ok {
			firstNonPhi = i
			break
		}
	}
	nonPhis := fr.block.Instrs[firstNonPhi:]
	if fr.hasMerged {
		fr.hasMerged = false
		for i := 0; i < firstNonPhi; i++ {
			fr.env[fr.block.Instrs[i].(*ssa.Phi)] = fr.mergedPhis[i]
		}
		fr.mergedPhis = nil
		return nonPhis
	}
	if firstNonPhi > 0 {
		phis := fr.block.Instrs[:firstNonPhi]
		predIndex := slices.Index(fr.block.Preds, fr.prevBlock)
		fr.phitemps = fr.phitemps[:0]
		for _, phi := range phis {
			phi := phi.(*ssa.Phi)
			fr.phitemps = append(fr.phitemps, fr.get(phi.Edges[predIndex]))
		}
		for i, phi := range phis {
			fr.env[phi.(*ssa.Phi)] = fr.phitemps[i]
		}
	}
	return nonPhis
}

func doRecover(caller *frame) value {
	if caller != nil && !caller.panicking &&
		caller.caller != nil && caller.caller.panicking {
		caller.caller.panicking = false
		p := caller.caller.panic
		caller.caller.panic = nil
		switch p := p.(type) {
		case targetPanic:
			return p.v
		case runtimeError:
			return iface{caller.i.runtimeErrorString, p.Error()}
		default:
			panic(fmt.Sprintf("unexpected panic type %T in target call to recover()", p))
		}
	}
	return iface{}
}

func mustDeref(t types.Type) types.Type {
	if p, ok := t.Underlying().(*types.Pointer); ok {
		return p.Elem()
	}
	panic("mustDeref: not a pointer: " + t.String())
}

// ---------------------------------------------------------------------------
// interpreter construction, globals and package initialisation

func newInterpreter(ex *Explorer, p *pathState) *interpreter {
	i := &interpreter{ex: ex, p: p, prog: ex.prog, globals: map[*ssa.Global]*value{}, initDone: map[*ssa.Package]bool{}, sizes: ex.sizes, replace: map[string]value{}, onceDone: map[*value]bool{}, uniq: map[value]*value{}, mergeable: map[string]bool{}, fnvStreams: map[*value][]value{}, syncMaps: map[*value]*omap{}, harnessAlias: map[string]string{}, mutexes: map[*value]*mutexState{}}
	if rp := i.prog.ImportedPackage("runtime"); rp != nil {
		i.runtimeErrorString = rp.Type("errorString").Object().Type()
	} else {
		i.runtimeErrorString = types.Typ[types.String]
	}
	i.sched = newScheduler(i)
	return i
}

// isTargetPkg: packages of the module under test are initialised per path.
func isTargetPkg(pkg *ssa.Package) bool {
	return pkg != nil && strings.HasPrefix(pkg.Pkg.Path(), "github.com/bartventer/httpcache")
}

// std packages whose initialisers are interpreted (pure data tables).
var stdInitAllowed = map[string]bool{
	"unicode": true, "unicode/utf8": true, "encoding/base64": true, "strconv": true,
	"math/bits": true, "net/http/internal/ascii": true, "internal/itoa": true,
	"strings": true, "bytes": true, "hash/fnv": true, "slices": true, "sort": true,
	"io/fs": true, "internal/oserror": true, "io": true,
	"context": true, // error values (Canceled, DeadlineExceeded) and the closed channel
}

func (i *interpreter) allowInit(pkg *ssa.Package) bool {
	if i.initDone[pkg] {
		return false
	}
	if isTargetPkg(pkg) || (i.inStdInit && stdInitAllowed[pkg.Pkg.Path()]) {
		i.initDone[pkg] = true
		return true
	}
	return false
}

// aliases of std globals whose own package initialiser is not interpreted
var globalAlias = map[string][2]string{
	"os.ErrNotExist":   {"io/fs", "ErrNotExist"},
	"os.ErrExist":      {"io/fs", "ErrExist"},
	"os.ErrPermission": {"io/fs", "ErrPermission"},
	"os.ErrInvalid":    {"io/fs", "ErrInvalid"},
	"os.ErrClosed":     {"io/fs", "ErrClosed"},
}

func (i *interpreter) globalAddr(g *ssa.Global) *value {
	if r, ok := i.globals[g]; ok {
		return r
	}
	if al, ok := globalAlias[g.String()]; ok {
		if p := i.prog.ImportedPackage(al[0]); p != nil {
			if tg, ok := p.Members[al[1]].(*ssa.Global); ok {
				return i.globalAddr(tg)
			}
		}
	}
	if name, ok := i.harnessAlias[g.String()]; ok {
		if tg, ok := i.ex.fn.Pkg.Members[name].(*ssa.Global); ok {
			return i.globalAddr(tg)
		}
	}
	pkg := g.Pkg
	if !isTargetPkg(pkg) && stdInitAllowed[pkg.Pkg.Path()] && !i.inStdInit {
		// std data tables: initialised once per exploration and shared read-only
		if m, ok := i.ex.stdPkgs.Load(pkg); ok {
			if r, ok := m.(map[*ssa.Global]*value)[g]; ok {
				return r
			}
		} else {
			i.ex.stdMu.Lock()
			m, ok := i.ex.stdPkgs.Load(pkg)
			if !ok {
				// run the initialiser in a scratch interpreter bound to this path
				sub := newInterpreter(i.ex, i.p)
				sub.inStdInit = true
				sub.sched.cur = &goroutine{main: true, wake: make(chan struct{})}
				sub.sched.gs = []*goroutine{sub.sched.cur}
				sub.runInit(pkg)
				pm := map[*ssa.Global]*value{}
				for gg, cell := range sub.globals {
					if gg.Pkg == pkg {
						pm[gg] = cell
					}
				}
				// globals never touched by init keep their zero value
				for _, mem := range pkg.Members {
					if gg, ok := mem.(*ssa.Global); ok {
						if _, ok := pm[gg]; !ok {
							cell := zero(mustDeref(gg.Type()))
							pm[gg] = &cell
						}
					}
				}
				i.ex.stdPkgs.Store(pkg, pm)
				m = pm
			}
			i.ex.stdMu.Unlock()
			if r, ok := m.(map[*ssa.Global]*value)[g]; ok {
				return r
			}
		}
	}
	if !isTargetPkg(pkg) {
		// std global: shared, read-only after initialisation (per worker/path lazily)
		if !i.initDone[pkg] {
			if !stdInitAllowed[pkg.Pkg.Path()] {
				// zero value; reads are flagged
				if !zeroGlobalOK[g.String()] {
					abort("access to global %s of uninitialised package %s", g.Name(), pkg.Pkg.Path())
				}
			} else {
				i.runInit(pkg)
			}
		}
		if r, ok := i.globals[g]; ok {
			return r
		}
	}
	cell := zero(mustDeref(g.Type()))
	i.globals[g] = &cell
	return &cell
}

// globals of non-initialised std packages that may be read as zero values.
var zeroGlobalOK = map[string]bool{"net/http.DefaultTransport": true, "log/slog.DiscardHandler": true,
	// only reached from log/slog value construction (slog.Time): the locations are never inspected
	"time.Local": true, "time.UTC": true}

func (i *interpreter) runInit(pkg *ssa.Package) {
	if i.initDone[pkg] {
		return
	}
	init := pkg.Func("init")
	if init == nil {
		i.initDone[pkg] = true
		return
	}
	// allowInit is consulted inside callSSA
	saved := i.cur
	call(i, nil, token.NoPos, init, nil)
	i.cur = saved
}

// runMain initialises the target packages and runs the harness function.
func (i *interpreter) runMain(fn *ssa.Function) {
	i.sched.runMain(func() {
		i.runInit(fn.Pkg)
		// replacement table declared by the harness package
		if g, ok := fn.Pkg.Members["vxReplace"].(*ssa.Global); ok {
			if m, ok := (*i.globalAddr(g)).(*omap); ok && m != nil {
				for _, e := range m.entries {
					if !e.dead {
						i.replace[e.key.(string)] = e.val.(iface).v
					}
				}
			}
		}
		if g, ok := fn.Pkg.Members["vxGlobalAlias"].(*ssa.Global); ok {
			if m, ok := (*i.globalAddr(g)).(*omap); ok && m != nil {
				for _, e := range m.entries {
					if !e.dead {
						i.harnessAlias[e.key.(string)] = e.val.(string)
					}
				}
			}
		}
		if g, ok := fn.Pkg.Members["vxMergeable"].(*ssa.Global); ok {
			if l, ok := (*i.globalAddr(g)).([]value); ok {
				for _, e := range l {
					i.mergeable[e.(string)] = true
				}
			}
		}
		call(i, nil, token.NoPos, fn, nil)
	})
}

package symgo

// The serialisation boundary (interface assumptions A-SER and A-JSON of DESIGN.md §3):
// Response.MarshalBinary / ParseResponse and json.Marshal / json.Unmarshal of the
// variant index are intercepted; the "bytes" are an opaque token carrying a deep copy
// of the value (strings coerced to valid UTF-8 as encoding/json does, jsonutf8.go).
// Everything around them (responseCache, driver.Conn implementations,
// the transport) runs as real code.

import (
	"bufio"
	"bytes"
	"fmt"
	"go/types"
	"net/http"
	"sort"

	"golang.org/x/tools/go/ssa"
)

func deepCopy(v value, memo map[*value]*value) value {
	switch x := v.(type) {
	case *value:
		if x == nil {
			return x
		}
		if c, ok := memo[x]; ok {
			return c
		}
		c := new(value)
		memo[x] = c
		*c = deepCopy(*x, memo)
		return c
	case structure:
		r := make(structure, len(x))
		for i := range x {
			r[i] = deepCopy(x[i], memo)
		}
		return r
	case array:
		r := make(array, len(x))
		for i := range x {
			r[i] = deepCopy(x[i], memo)
		}
		return r
	case tuple:
		r := make(tuple, len(x))
		for i := range x {
			r[i] = deepCopy(x[i], memo)
		}
		return r
	case []value:
		if x == nil {
			return x
		}
		r := make([]value, len(x), cap(x))
		for i := range x {
			r[i] = deepCopy(x[i], memo)
		}
		return r
	case iface:
		return iface{x.t, deepCopy(x.v, memo)}
	case *omap:
		if x == nil {
			return x
		}
		m := newOmap(x.kt)
		for _, e := range x.entries {
			if !e.dead {
				m.insert(deepCopy(e.key, memo), deepCopy(e.val, memo), func(*Term) bool { return false })
			}
		}
		return m
	}
	return v
}

func fieldIndex(t types.Type, name string) int {
	st, ok := t.Underlying().(*types.Struct)
	if !ok {
		panic("fieldIndex: not a struct: " + t.String())
	}
	for i := 0; i < st.NumFields(); i++ {
		if st.Field(i).Name() == name {
			return i
		}
	}
	panic("fieldIndex: no field " + name + " in " + t.String())
}

func (i *interpreter) namedType(pkg, name string) types.Type {
	p := i.prog.ImportedPackage(pkg)
	if p == nil {
		abort("package %s not loaded", pkg)
	}
	m := p.Type(name)
	if m == nil {
		abort("type %s.%s not found", pkg, name)
	}
	return m.Object().Type()
}

const internalPkg = targetPrefix + "/internal"

func init() {
	ext := externals
	ext["("+internalPkg+".Response).MarshalBinary"] = func(fr *frame, a []value) (value, bool) {
		r := a[0].(structure)
		rt := fr.i.namedType(internalPkg, "Response")
		data, _ := r[fieldIndex(rt, "Data")].(*value)
		if data == nil {
			panic(nilDeref())
		}
		// a body that cannot be read completely makes DumpResponse fail: harness bodies
		// expose this through a boolean field named "fail".
		ht := fr.i.namedType("net/http", "Response")
		body := (*data).(structure)[fieldIndex(ht, "Body")].(iface)
		if body.t != nil {
			if bp, ok := body.v.(*value); ok && bp != nil {
				if pt, ok := body.t.Underlying().(*types.Pointer); ok {
					if st, ok := pt.Elem().Underlying().(*types.Struct); ok {
						for k := 0; k < st.NumFields(); k++ {
							if st.Field(k).Name() == "fail" {
								if f := (*bp).(structure)[k]; fr.decide(toTerm(f)) {
									return tuple{[]value(nil), fr.i.errorf("failed to marshal response: %w", []value{fr.i.newError("unexpected EOF")})}, true
								}
							}
						}
					}
				}
			}
		}
		cp := deepCopy(r, map[*value]*value{})
		return tuple{[]value{blob{"entry", cp}}, iface{}}, true
	}
	ext[internalPkg+".ParseResponse"] = func(fr *frame, a []value) (value, bool) {
		data, _ := a[0].([]value)
		rt := fr.i.namedType(internalPkg, "Response")
		if len(data) == 1 {
			if b, ok := data[0].(blob); ok && b.kind == "entry" {
				cp := deepCopy(b.v, map[*value]*value{}).(structure)
				ht := fr.i.namedType("net/http", "Response")
				if dp, ok := cp[fieldIndex(rt, "Data")].(*value); ok && dp != nil {
					(*dp).(structure)[fieldIndex(ht, "Request")] = a[1]
				}
				var cell value = cp
				return tuple{&cell, iface{}}, true
			}
		}
		return tuple{(*value)(nil), fr.i.newError("invalid response")}, true
	}
	ext["encoding/json.Marshal"] = func(fr *frame, a []value) (value, bool) {
		v := a[0].(iface)
		cp := fr.jsonCoerce(deepCopy(v.v, map[*value]*value{}), map[*value]bool{})
		return tuple{[]value{blob{"json:" + typeString(v.t), cp}}, iface{}}, true
	}
	ext["encoding/json.Unmarshal"] = func(fr *frame, a []value) (value, bool) {
		data, _ := a[0].([]value)
		dst := a[1].(iface)
		pt, ok := dst.t.Underlying().(*types.Pointer)
		if !ok {
			return fr.i.newError("json: Unmarshal(non-pointer)"), true
		}
		if len(data) == 1 {
			if b, ok := data[0].(blob); ok && b.kind == "json:"+typeString(pt.Elem()) {
				*(dst.v.(*value)) = deepCopy(b.v, map[*value]*value{})
				return iface{}, true
			}
		}
		return fr.i.newError("json: cannot unmarshal"), true
	}
	ext["(*encoding/json.Encoder).Encode"] = func(fr *frame, a []value) (value, bool) {
		// A-JSON for streams: the document is one opaque token written with a single Write
		enc := a[0].(*value)
		et := fr.i.namedType("encoding/json", "Encoder")
		w := (*enc).(structure)[fieldIndex(et, "w")].(iface)
		if w.t == nil {
			panic(nilDeref())
		}
		v := a[1].(iface)
		doc := []value{blob{"json:" + typeString(v.t), fr.jsonCoerce(deepCopy(v.v, map[*value]*value{}), map[*value]bool{})}}
		m := fr.i.prog.LookupMethod(w.t, nil, "Write")
		if m == nil {
			abort("json.Encoder: writer %v has no Write", w.t)
		}
		r := call(fr.i, fr, 0, m, []value{w.v, doc}).(tuple)
		return r[1], true
	}
	ext["net/http.ReadResponse"] = func(fr *frame, a []value) (value, bool) {
		// only used on the constant 504 message of make504Response
		rd := a[0].(*value)
		bt := fr.i.namedType("bufio", "Reader")
		src := (*rd).(structure)[fieldIndex(bt, "rd")].(iface)
		bp, ok := src.v.(*value)
		if !ok || bp == nil {
			abort("http.ReadResponse: unsupported reader %v", src.t)
		}
		bb := (*bp).(structure)
		bufT := fr.i.namedType("bytes", "Buffer")
		raw := bb[fieldIndex(bufT, "buf")].([]value)
		off := int(asInt64(bb[fieldIndex(bufT, "off")]))
		bs := []byte(concreteString(mkSstr(raw[off:]), "http.ReadResponse input"))
		nr, err := http.ReadResponse(bufio.NewReader(bytes.NewReader(bs)), nil)
		if err != nil {
			return tuple{(*value)(nil), fr.i.nativeErr(err)}, true
		}
		ht := fr.i.namedType("net/http", "Response")
		st := zero(ht).(structure)
		set := func(name string, v value) { st[fieldIndex(ht, name)] = v }
		set("Status", nr.Status)
		set("StatusCode", nr.StatusCode)
		set("Proto", nr.Proto)
		set("ProtoMajor", nr.ProtoMajor)
		set("ProtoMinor", nr.ProtoMinor)
		set("ContentLength", nr.ContentLength)
		set("Close", nr.Close)
		set("Uncompressed", nr.Uncompressed)
		set("Request", a[1])
		hm := newOmap(types.Typ[types.String])
		keys := make([]string, 0, len(nr.Header))
		for k := range nr.Header {
			keys = append(keys, k)
		}
		sort.Strings(keys)
		for _, k := range keys {
			var vs []value
			for _, s := range nr.Header[k] {
				vs = append(vs, s)
			}
			hm.insert(k, vs, nil)
		}
		set("Header", hm)
		if nr.ContentLength != 0 {
			abort("http.ReadResponse: only bodiless constant messages are supported")
		}
		set("Body", iface{t: fr.i.namedType("net/http", "noBody"), v: structure{}})
		var cell value = st
		return tuple{&cell, iface{}}, true
	}
}

func typeString(t types.Type) string {
	if t == nil {
		return "<nil>"
	}
	return t.String()
}

var _ = fmt.Sprintf
var _ *ssa.Function

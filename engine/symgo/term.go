package symgo

// Term layer: pure, immutable SMT terms of sort Int or Bool with an interval
// domain on every Int term.  Machine integers are encoded as mathematical
// integers with explicit two's-complement wrap (see DESIGN.md §2.3).

import (
	"fmt"
	"math/big"
	"sort"
	"strings"
	"sync/atomic"
)

type Op uint8

const (
	OpConst Op = iota
	OpVar
	OpAdd
	OpSub
	OpMulC // args[0] * c
	OpMul  // non-linear
	OpDiv  // floor division by positive constant c
	OpMod  // modulo positive constant c, result in [0,c)
	OpIte
	OpEq
	OpLt
	OpLe
	OpAnd
	OpOr
	OpNot
	OpUF   // uninterpreted function name(args...) : Int
	OpBV   // bit-vector fallback: name in {bvand,bvor,bvxor}, width in c, two Int args (non-negative, < 2^width)
)

type Term struct {
	id     uint64
	op     Op
	args   []*Term
	c      *big.Int
	name   string
	isBool bool
	lo, hi *big.Int // interval, Int terms only; nil = unbounded
	size   int      // node count estimate
	h1, h2 uint64   // structural hash (path independent), set by seal()
	sel    *selInfo // set on the result of a table look-up with symbolic index
}

// selInfo: the term is table[base] for base in [lo, lo+len(vals)).
type selInfo struct {
	base *Term
	lo   int
	vals []*big.Int
}

func mix(h, x uint64) uint64 {
	h ^= x + 0x9e3779b97f4a7c15 + (h << 6) + (h >> 2)
	h *= 0xff51afd7ed558ccd
	h ^= h >> 33
	return h
}

func hashStr(seed uint64, s string) uint64 {
	h := seed
	for i := 0; i < len(s); i++ {
		h = (h ^ uint64(s[i])) * 1099511628211
	}
	return h
}

// hash returns the structural hash, computing it on first use (idempotent, so the
// benign race between workers sharing summary terms is harmless; stores are atomic).
func (t *Term) hash() (uint64, uint64) {
	if h := atomic.LoadUint64(&t.h1); h != 0 {
		return h, atomic.LoadUint64(&t.h2)
	}
	for _, x := range t.args {
		x.hash()
	}
	t.seal()
	return t.h1, t.h2
}

func (t *Term) seal() *Term {
	a, b := uint64(t.op)+1, uint64(t.op)*31+7
	if t.isBool {
		a, b = a+1000, b+2000
	}
	if t.c != nil {
		s := t.c.String()
		a, b = hashStr(a^14695981039346656037, s), hashStr(b^1099511628211, s)
	}
	if t.name != "" {
		a, b = hashStr(a^0xabcdef, t.name), hashStr(b^0x123457, t.name)
	}
	for _, x := range t.args {
		a, b = mix(a, atomic.LoadUint64(&x.h1)), mix(b, atomic.LoadUint64(&x.h2)^0x5555)
	}
	if a == 0 {
		a = 1
	}
	atomic.StoreUint64(&t.h2, b)
	atomic.StoreUint64(&t.h1, a)
	return t
}

var termCounter uint64

func newTerm(op Op, isBool bool, args ...*Term) *Term {
	t := &Term{id: atomic.AddUint64(&termCounter, 1), op: op, args: args, isBool: isBool, size: 1}
	for _, a := range args {
		t.size += a.size
		if t.size > 1<<30 {
			t.size = 1 << 30
		}
	}
	return t
}

var (
	bigZero = big.NewInt(0)
	bigOne  = big.NewInt(1)
	tTrue   = &Term{id: 1, op: OpConst, c: bigOne, isBool: true, size: 1}
	tFalse  = &Term{id: 2, op: OpConst, c: bigZero, isBool: true, size: 1}
)

func init() { termCounter = 10 }

func bi(n int64) *big.Int   { return big.NewInt(n) }
func bu(n uint64) *big.Int  { return new(big.Int).SetUint64(n) }
func pow2(k uint) *big.Int  { return new(big.Int).Lsh(bigOne, k) }
func mkBool(b bool) *Term {
	if b {
		return tTrue
	}
	return tFalse
}

func mkConst(n *big.Int) *Term {
	t := newTerm(OpConst, false)
	t.c, t.lo, t.hi = n, n, n
	return t
}
func mkConstI(n int64) *Term { return mkConst(bi(n)) }

func mkVar(name string, isBool bool, lo, hi *big.Int) *Term {
	t := newTerm(OpVar, isBool)
	t.name, t.lo, t.hi = name, lo, hi
	return t
}

func (t *Term) IsConst() bool { return t.op == OpConst }
func (t *Term) constBool() (bool, bool) {
	if t.op == OpConst && t.isBool {
		return t.c.Sign() != 0, true
	}
	return false, false
}

func addB(a, b *big.Int) *big.Int {
	if a == nil || b == nil {
		return nil
	}
	return new(big.Int).Add(a, b)
}
func subB(a, b *big.Int) *big.Int {
	if a == nil || b == nil {
		return nil
	}
	return new(big.Int).Sub(a, b)
}
func minB(a, b *big.Int) *big.Int {
	if a == nil || b == nil {
		return nil
	}
	if a.Cmp(b) <= 0 {
		return a
	}
	return b
}
func maxB(a, b *big.Int) *big.Int {
	if a == nil || b == nil {
		return nil
	}
	if a.Cmp(b) >= 0 {
		return a
	}
	return b
}

// definitely a<b etc. using intervals
func ivLt(a, b *Term) bool  { return a.hi != nil && b.lo != nil && a.hi.Cmp(b.lo) < 0 }
func ivLe(a, b *Term) bool  { return a.hi != nil && b.lo != nil && a.hi.Cmp(b.lo) <= 0 }
func sameTerm(a, b *Term) bool {
	if a == b {
		return true
	}
	if a.op == OpConst && b.op == OpConst && a.isBool == b.isBool {
		return a.c.Cmp(b.c) == 0
	}
	if a.op == OpVar && b.op == OpVar {
		return a.name == b.name
	}
	return false
}

func mkAdd(a, b *Term) *Term {
	if a.op == OpConst && b.op == OpConst {
		return mkConst(new(big.Int).Add(a.c, b.c))
	}
	if a.op == OpConst && a.c.Sign() == 0 {
		return b
	}
	if b.op == OpConst && b.c.Sign() == 0 {
		return a
	}
	// (x + c1) + c2 -> x + (c1+c2)
	if b.op == OpConst && a.op == OpAdd && a.args[1].op == OpConst {
		return mkAdd(a.args[0], mkConst(new(big.Int).Add(a.args[1].c, b.c)))
	}
	if a.op == OpConst {
		a, b = b, a
	}
	t := newTerm(OpAdd, false, a, b)
	t.lo, t.hi = addB(a.lo, b.lo), addB(a.hi, b.hi)
	return t
}

func mkSub(a, b *Term) *Term {
	if b.op == OpConst {
		return mkAdd(a, mkConst(new(big.Int).Neg(b.c)))
	}
	if sameTerm(a, b) {
		return mkConstI(0)
	}
	t := newTerm(OpSub, false, a, b)
	t.lo, t.hi = subB(a.lo, b.hi), subB(a.hi, b.lo)
	return t
}

func mkNeg(a *Term) *Term { return mkMulC(a, bi(-1)) }

func mkMulC(a *Term, c *big.Int) *Term {
	if a.op == OpConst {
		return mkConst(new(big.Int).Mul(a.c, c))
	}
	if c.Sign() == 0 {
		return mkConstI(0)
	}
	if c.Cmp(bigOne) == 0 {
		return a
	}
	if a.op == OpMulC {
		return mkMulC(a.args[0], new(big.Int).Mul(a.c, c))
	}
	t := newTerm(OpMulC, false, a)
	t.c = c
	var lo, hi *big.Int
	if a.lo != nil {
		lo = new(big.Int).Mul(a.lo, c)
	}
	if a.hi != nil {
		hi = new(big.Int).Mul(a.hi, c)
	}
	if c.Sign() < 0 {
		lo, hi = hi, lo
	}
	t.lo, t.hi = lo, hi
	return t
}

func mkMul(a, b *Term) *Term {
	if a.op == OpConst {
		return mkMulC(b, a.c)
	}
	if b.op == OpConst {
		return mkMulC(a, b.c)
	}
	t := newTerm(OpMul, false, a, b)
	if a.lo != nil && a.hi != nil && b.lo != nil && b.hi != nil {
		c := []*big.Int{new(big.Int).Mul(a.lo, b.lo), new(big.Int).Mul(a.lo, b.hi), new(big.Int).Mul(a.hi, b.lo), new(big.Int).Mul(a.hi, b.hi)}
		lo, hi := c[0], c[0]
		for _, v := range c {
			lo, hi = minB(lo, v), maxB(hi, v)
		}
		t.lo, t.hi = lo, hi
	}
	return t
}

func floorDiv(a, c *big.Int) *big.Int {
	q, m := new(big.Int).DivMod(a, c, new(big.Int)) // Euclidean; c>0 => floor
	_ = m
	return q
}

// mkDiv: floor division by positive constant.
func mkDiv(a *Term, c *big.Int) *Term {
	if c.Sign() <= 0 {
		panic("mkDiv: non-positive divisor")
	}
	if c.Cmp(bigOne) == 0 {
		return a
	}
	if a.op == OpConst {
		return mkConst(floorDiv(a.c, c))
	}
	if a.lo != nil && a.hi != nil {
		ql, qh := floorDiv(a.lo, c), floorDiv(a.hi, c)
		if ql.Cmp(qh) == 0 {
			return mkConst(ql)
		}
	}
	// (x*k) div c when c | k
	if a.op == OpMulC {
		if r := new(big.Int).Mod(a.c, c); r.Sign() == 0 && a.c.Sign() > 0 {
			return mkMulC(a.args[0], new(big.Int).Div(a.c, c))
		}
	}
	if a.op == OpAdd {
		for i := 0; i < 2; i++ {
			p, r := a.args[i], a.args[1-i]
			if p.op == OpMulC && p.c.Sign() > 0 && r.lo != nil && r.hi != nil && r.lo.Sign() >= 0 && r.hi.Cmp(p.c) < 0 {
				if q, m := new(big.Int).DivMod(c, p.c, new(big.Int)); q.Sign() > 0 && m.Sign() == 0 {
					// (x*K + r) div (K*q) with 0 <= r < K  ==  x div q
					return mkDiv(p.args[0], new(big.Int).Div(c, p.c))
				}
				if q, m := new(big.Int).DivMod(p.c, c, new(big.Int)); q.Sign() > 0 && m.Sign() == 0 {
					// (x*(c*q) + r) div c  ==  x*q + r div c
					return mkAdd(mkMulC(p.args[0], new(big.Int).Div(p.c, c)), mkDiv(r, c))
				}
			}
		}
	}
	t := newTerm(OpDiv, false, a)
	t.c = c
	if a.lo != nil {
		t.lo = floorDiv(a.lo, c)
	}
	if a.hi != nil {
		t.hi = floorDiv(a.hi, c)
	}
	return t
}

func mkMod(a *Term, c *big.Int) *Term {
	if c.Sign() <= 0 {
		panic("mkMod: non-positive modulus")
	}
	if a.op == OpConst {
		return mkConst(new(big.Int).Mod(a.c, c))
	}
	if a.lo != nil && a.hi != nil && a.lo.Sign() >= 0 && a.hi.Cmp(c) < 0 {
		return a
	}
	if a.lo != nil && a.hi != nil {
		// same quotient over the whole interval: a mod c = a - q*c
		ql, qh := floorDiv(a.lo, c), floorDiv(a.hi, c)
		if ql.Cmp(qh) == 0 {
			return mkSub(a, mkConst(new(big.Int).Mul(ql, c)))
		}
	}
	if a.op == OpMulC {
		if r := new(big.Int).Mod(a.c, c); r.Sign() == 0 {
			return mkConstI(0)
		}
	}
	// (x + k*c') mod c where c | k*c' handled for Add with MulC
	if a.op == OpAdd {
		for i := 0; i < 2; i++ {
			p := a.args[i]
			if p.op == OpMulC && new(big.Int).Mod(p.c, c).Sign() == 0 {
				return mkMod(a.args[1-i], c)
			}
			if p.op == OpConst && new(big.Int).Mod(p.c, c).Sign() == 0 {
				return mkMod(a.args[1-i], c)
			}
		}
	}
	if a.op == OpMod && new(big.Int).Mod(a.c, c).Sign() == 0 {
		// (x mod kc) mod c = x mod c
		return mkMod(a.args[0], c)
	}
	t := newTerm(OpMod, false, a)
	t.c = c
	t.lo, t.hi = bigZero, new(big.Int).Sub(c, bigOne)
	return t
}

// Go truncated division / remainder by a non-zero constant.
func mkTDiv(a *Term, c *big.Int) *Term {
	if c.Sign() < 0 {
		return mkNeg(mkTDiv(a, new(big.Int).Neg(c)))
	}
	if a.lo != nil && a.lo.Sign() >= 0 {
		return mkDiv(a, c)
	}
	if a.hi != nil && a.hi.Sign() <= 0 {
		return mkNeg(mkDiv(mkNeg(a), c))
	}
	return mkIte(mkLe(mkConstI(0), a), mkDiv(a, c), mkNeg(mkDiv(mkNeg(a), c)))
}
func mkTRem(a *Term, c *big.Int) *Term {
	ac := new(big.Int).Abs(c)
	if a.lo != nil && a.lo.Sign() >= 0 {
		return mkMod(a, ac)
	}
	return mkSub(a, mkMulC(mkTDiv(a, ac), ac))
}

// wrap x into [lo, lo+size).
func mkWrap(x *Term, lo, size *big.Int) *Term {
	hi := new(big.Int).Sub(new(big.Int).Add(lo, size), bigOne)
	if x.lo != nil && x.hi != nil && x.lo.Cmp(lo) >= 0 && x.hi.Cmp(hi) <= 0 {
		return x
	}
	if x.op == OpConst {
		r := new(big.Int).Mod(new(big.Int).Sub(x.c, lo), size)
		return mkConst(r.Add(r, lo))
	}
	if lo.Sign() == 0 {
		return mkMod(x, size)
	}
	return mkAdd(mkMod(mkSub(x, mkConst(lo)), size), mkConst(lo))
}

func mkNot(a *Term) *Term {
	if b, ok := a.constBool(); ok {
		return mkBool(!b)
	}
	if a.op == OpNot {
		return a.args[0]
	}
	return newTerm(OpNot, true, a)
}

func mkAnd(a, b *Term) *Term {
	if v, ok := a.constBool(); ok {
		if v {
			return b
		}
		return tFalse
	}
	if v, ok := b.constBool(); ok {
		if v {
			return a
		}
		return tFalse
	}
	if a == b {
		return a
	}
	return newTerm(OpAnd, true, a, b)
}

func mkOr(a, b *Term) *Term {
	if v, ok := a.constBool(); ok {
		if v {
			return tTrue
		}
		return b
	}
	if v, ok := b.constBool(); ok {
		if v {
			return tTrue
		}
		return a
	}
	if a == b {
		return a
	}
	return newTerm(OpOr, true, a, b)
}

func mkAndN(ts ...*Term) *Term {
	r := tTrue
	for _, t := range ts {
		r = mkAnd(r, t)
	}
	return r
}

func mkImplies(a, b *Term) *Term { return mkOr(mkNot(a), b) }

func mkIte(c, a, b *Term) *Term {
	if v, ok := c.constBool(); ok {
		if v {
			return a
		}
		return b
	}
	if sameTerm(a, b) {
		return a
	}
	if a.isBool {
		av, aok := a.constBool()
		bv, bok := b.constBool()
		switch {
		case aok && bok: // differ
			if av {
				return c
			}
			return mkNot(c)
		case aok && av:
			return mkOr(c, b)
		case aok && !av:
			return mkAnd(mkNot(c), b)
		case bok && bv:
			return mkOr(mkNot(c), a)
		case bok && !bv:
			return mkAnd(c, a)
		}
		return newTerm(OpIte, true, c, a, b)
	}
	if c.op == OpNot {
		return mkIte(c.args[0], b, a)
	}
	t := newTerm(OpIte, false, c, a, b)
	t.lo, t.hi = minB(a.lo, b.lo), maxB(a.hi, b.hi)
	return t
}

// cmpThroughIte pushes a comparison with a constant through an ite tree whose
// size is small; returns nil if not applicable.
func cmpThroughIte(mk func(a, b *Term) *Term, x, k *Term, xFirst bool, depth int) *Term {
	if x.op != OpIte || depth > 12 || x.size > 4096 {
		return nil
	}
	sub := func(y *Term) *Term {
		if y.op == OpIte {
			if r := cmpThroughIte(mk, y, k, xFirst, depth+1); r != nil {
				return r
			}
		}
		if xFirst {
			return mk(y, k)
		}
		return mk(k, y)
	}
	ta, tb := sub(x.args[1]), sub(x.args[2])
	_, aok := ta.constBool()
	_, bok := tb.constBool()
	if aok || bok || depth > 0 {
		return mkIte(x.args[0], ta, tb)
	}
	return nil
}

func mkEq(a, b *Term) *Term {
	if a.isBool != b.isBool {
		panic("mkEq: sort mismatch")
	}
	if sameTerm(a, b) {
		return tTrue
	}
	if a.isBool {
		if v, ok := a.constBool(); ok {
			if v {
				return b
			}
			return mkNot(b)
		}
		if v, ok := b.constBool(); ok {
			if v {
				return a
			}
			return mkNot(a)
		}
		return newTerm(OpEq, true, a, b)
	}
	if a.op == OpConst && b.op == OpConst {
		return mkBool(a.c.Cmp(b.c) == 0)
	}
	if ivLt(a, b) || ivLt(b, a) {
		return tFalse
	}
	if b.op == OpConst {
		if r := cmpThroughIte(mkEq, a, b, true, 0); r != nil {
			return r
		}
		// (x + c1) == c2 -> x == c2-c1
		if a.op == OpAdd && a.args[1].op == OpConst {
			return mkEq(a.args[0], mkConst(new(big.Int).Sub(b.c, a.args[1].c)))
		}
	} else if a.op == OpConst {
		return mkEq(b, a)
	}
	return newTerm(OpEq, true, a, b)
}

// addend returns y if t == x+y (either order), else nil.
func addend(t, x *Term) *Term {
	if t.op == OpAdd {
		if t.args[0] == x {
			return t.args[1]
		}
		if t.args[1] == x {
			return t.args[0]
		}
	}
	return nil
}

func mkLt(a, b *Term) *Term {
	if a.op == OpConst && b.op == OpConst {
		return mkBool(a.c.Cmp(b.c) < 0)
	}
	if y := addend(a, b); y != nil { // x+y < x
		return mkLt(y, mkConstI(0))
	}
	if y := addend(b, a); y != nil { // x < x+y
		return mkLt(mkConstI(0), y)
	}
	if ivLt(a, b) {
		return tTrue
	}
	if ivLe(b, a) {
		return tFalse
	}
	if sameTerm(a, b) {
		return tFalse
	}
	if b.op == OpConst {
		if r := cmpThroughIte(mkLt, a, b, true, 0); r != nil {
			return r
		}
		if a.op == OpAdd && a.args[1].op == OpConst {
			return mkLt(a.args[0], mkConst(new(big.Int).Sub(b.c, a.args[1].c)))
		}
	}
	if a.op == OpConst {
		if r := cmpThroughIte(mkLt, b, a, false, 0); r != nil {
			return r
		}
		if b.op == OpAdd && b.args[1].op == OpConst {
			return mkLt(mkConst(new(big.Int).Sub(a.c, b.args[1].c)), b.args[0])
		}
	}
	return newTerm(OpLt, true, a, b)
}

func mkLe(a, b *Term) *Term {
	if a.op == OpConst && b.op == OpConst {
		return mkBool(a.c.Cmp(b.c) <= 0)
	}
	if y := addend(a, b); y != nil { // x+y <= x
		return mkLe(y, mkConstI(0))
	}
	if y := addend(b, a); y != nil { // x <= x+y
		return mkLe(mkConstI(0), y)
	}
	if ivLe(a, b) {
		return tTrue
	}
	if ivLt(b, a) {
		return tFalse
	}
	if sameTerm(a, b) {
		return tTrue
	}
	if b.op == OpConst {
		if r := cmpThroughIte(mkLe, a, b, true, 0); r != nil {
			return r
		}
		if a.op == OpAdd && a.args[1].op == OpConst {
			return mkLe(a.args[0], mkConst(new(big.Int).Sub(b.c, a.args[1].c)))
		}
	}
	if a.op == OpConst {
		if r := cmpThroughIte(mkLe, b, a, false, 0); r != nil {
			return r
		}
		if b.op == OpAdd && b.args[1].op == OpConst {
			return mkLe(mkConst(new(big.Int).Sub(a.c, b.args[1].c)), b.args[0])
		}
	}
	return newTerm(OpLe, true, a, b)
}

func mkMin(a, b *Term) *Term {
	if ivLe(a, b) {
		return a
	}
	if ivLe(b, a) {
		return b
	}
	return mkIte(mkLe(a, b), a, b)
}
func mkMax(a, b *Term) *Term {
	if ivLe(b, a) {
		return a
	}
	if ivLe(a, b) {
		return b
	}
	return mkIte(mkLe(b, a), a, b)
}

func mkUF(name string, lo, hi *big.Int, args ...*Term) *Term {
	t := newTerm(OpUF, false, args...)
	t.name, t.lo, t.hi = name, lo, hi
	return t
}

// mkBV builds a bit-vector fallback operation on two non-negative Int terms < 2^width.
func mkBV(op string, width uint, a, b *Term) *Term {
	if a.op == OpConst && b.op == OpConst {
		r := new(big.Int)
		switch op {
		case "bvand":
			r.And(a.c, b.c)
		case "bvor":
			r.Or(a.c, b.c)
		case "bvxor":
			r.Xor(a.c, b.c)
		}
		return mkConst(r)
	}
	t := newTerm(OpBV, false, a, b)
	t.name = op
	t.c = bi(int64(width))
	t.lo = bigZero
	t.hi = new(big.Int).Sub(pow2(width), bigOne)
	if op == "bvand" {
		t.hi = minB(minB(a.hi, b.hi), t.hi)
		if t.hi == nil {
			t.hi = new(big.Int).Sub(pow2(width), bigOne)
		}
	} else if a.hi != nil && b.hi != nil && a.lo != nil && b.lo != nil && a.lo.Sign() >= 0 && b.lo.Sign() >= 0 {
		// or/xor of two values below 2^k stays below 2^k
		k := uint(max(a.hi.BitLen(), b.hi.BitLen()))
		if k < width {
			t.hi = new(big.Int).Sub(pow2(k), bigOne)
		}
	}
	return t
}

// mapIteLeaves applies f to the constant leaves of an ite-tree; returns nil if x is
// not an ite tree over constants (or too big).
func mapIteLeaves(x *Term, f func(c *big.Int) *Term) *Term {
	if x.size > 2048 {
		return nil
	}
	var rec func(t *Term) *Term
	memo := map[*Term]*Term{}
	rec = func(t *Term) *Term {
		if r, ok := memo[t]; ok {
			return r
		}
		var r *Term
		switch t.op {
		case OpConst:
			r = f(t.c)
		case OpIte:
			a, b := rec(t.args[1]), rec(t.args[2])
			if a != nil && b != nil {
				r = mkIte(t.args[0], a, b)
			}
		}
		memo[t] = r
		return r
	}
	if x.op != OpIte {
		return nil
	}
	return rec(x)
}

// ---------------------------------------------------------------------------
// Printing

func smtNum(n *big.Int) string {
	if n.Sign() < 0 {
		return "(- " + new(big.Int).Neg(n).String() + ")"
	}
	return n.String()
}

func smtName(s string) string {
	var b strings.Builder
	b.WriteString("v_")
	for _, r := range s {
		switch {
		case r >= 'a' && r <= 'z', r >= 'A' && r <= 'Z', r >= '0' && r <= '9', r == '_', r == '.', r == '!':
			b.WriteRune(r)
		default:
			fmt.Fprintf(&b, "_%x_", r)
		}
	}
	return b.String()
}

func (t *Term) ref() string {
	switch t.op {
	case OpConst:
		if t.isBool {
			if t.c.Sign() != 0 {
				return "true"
			}
			return "false"
		}
		return smtNum(t.c)
	case OpVar:
		return smtName(t.name)
	}
	return fmt.Sprintf("t%d", t.id)
}

func (t *Term) body() string { return t.bodyWith(func(x *Term) string { return x.ref() }) }

func (t *Term) bodyWith(ref func(*Term) string) string {
	a := func(i int) string { return ref(t.args[i]) }
	switch t.op {
	case OpAdd:
		return "(+ " + a(0) + " " + a(1) + ")"
	case OpSub:
		return "(- " + a(0) + " " + a(1) + ")"
	case OpMulC:
		return "(* " + smtNum(t.c) + " " + a(0) + ")"
	case OpMul:
		return "(* " + a(0) + " " + a(1) + ")"
	case OpDiv:
		return "(div " + a(0) + " " + smtNum(t.c) + ")"
	case OpMod:
		return "(mod " + a(0) + " " + smtNum(t.c) + ")"
	case OpIte:
		return "(ite " + a(0) + " " + a(1) + " " + a(2) + ")"
	case OpEq:
		return "(= " + a(0) + " " + a(1) + ")"
	case OpLt:
		return "(< " + a(0) + " " + a(1) + ")"
	case OpLe:
		return "(<= " + a(0) + " " + a(1) + ")"
	case OpAnd:
		return "(and " + a(0) + " " + a(1) + ")"
	case OpOr:
		return "(or " + a(0) + " " + a(1) + ")"
	case OpNot:
		return "(not " + a(0) + ")"
	case OpUF:
		s := "(" + smtName(t.name)
		for i := range t.args {
			s += " " + a(i)
		}
		return s + ")"
	case OpBV:
		w := t.c.Int64()
		return fmt.Sprintf("(bv2nat (%s ((_ int2bv %d) %s) ((_ int2bv %d) %s)))", t.name, w, a(0), w, a(1))
	}
	panic(fmt.Sprintf("body: op %d", t.op))
}

// String renders the term fully inlined (debugging / samples).
func (t *Term) String() string {
	if t.size > 400 {
		return fmt.Sprintf("<term#%d size=%d>", t.id, t.size)
	}
	memo := map[*Term]string{}
	var rec func(t *Term) string
	rec = func(t *Term) string {
		switch t.op {
		case OpConst, OpVar:
			return t.ref()
		}
		if s, ok := memo[t]; ok {
			return s
		}
		s := t.body()
		for _, a := range t.args {
			if a.op != OpConst && a.op != OpVar {
				as := rec(a)
				s = strings.ReplaceAll(s, " "+a.ref()+")", " "+as+")")
				s = strings.ReplaceAll(s, " "+a.ref()+" ", " "+as+" ")
			}
		}
		if len(s) > 4000 {
			s = fmt.Sprintf("<term#%d>", t.id)
		}
		memo[t] = s
		return s
	}
	return rec(t)
}

// collectVars returns the variables (and UF symbols) used by t, in deterministic order.
func collect(ts []*Term, seen map[*Term]bool, vars map[string]*Term, ufs map[string]*Term, order *[]*Term) {
	var rec func(t *Term)
	rec = func(t *Term) {
		if seen[t] {
			return
		}
		seen[t] = true
		for _, a := range t.args {
			rec(a)
		}
		switch t.op {
		case OpVar:
			if _, ok := vars[t.name]; !ok {
				vars[t.name] = t
			}
		case OpConst:
		default:
			if t.op == OpUF {
				if _, ok := ufs[t.name]; !ok {
					ufs[t.name] = t
				}
			}
			*order = append(*order, t)
		}
	}
	for _, t := range ts {
		rec(t)
	}
}

// ---------------------------------------------------------------------------
// Evaluation under a model

type Model map[string]*big.Int

func (m Model) clone() Model {
	r := make(Model, len(m))
	for k, v := range m {
		r[k] = v
	}
	return r
}

type evaluator struct {
	m    Model
	memo map[*Term]*big.Int
	uf   func(name string, args []*big.Int) *big.Int
	miss bool // a variable was missing from the model
}

func (e *evaluator) eval(t *Term) *big.Int {
	switch t.op {
	case OpConst:
		return t.c
	case OpVar:
		if v, ok := e.m[t.name]; ok {
			return v
		}
		e.miss = true
		if t.isBool || t.lo == nil {
			if t.lo == nil && t.hi != nil && t.hi.Sign() < 0 {
				return t.hi
			}
			return bigZero
		}
		if t.lo.Sign() > 0 {
			return t.lo
		}
		if t.hi != nil && t.hi.Sign() < 0 {
			return t.hi
		}
		return bigZero
	}
	if r, ok := e.memo[t]; ok {
		return r
	}
	var r *big.Int
	b2i := func(b bool) *big.Int {
		if b {
			return bigOne
		}
		return bigZero
	}
	switch t.op {
	case OpAdd:
		r = new(big.Int).Add(e.eval(t.args[0]), e.eval(t.args[1]))
	case OpSub:
		r = new(big.Int).Sub(e.eval(t.args[0]), e.eval(t.args[1]))
	case OpMulC:
		r = new(big.Int).Mul(e.eval(t.args[0]), t.c)
	case OpMul:
		r = new(big.Int).Mul(e.eval(t.args[0]), e.eval(t.args[1]))
	case OpDiv:
		r = floorDiv(e.eval(t.args[0]), t.c)
	case OpMod:
		r = new(big.Int).Mod(e.eval(t.args[0]), t.c)
	case OpIte:
		if e.eval(t.args[0]).Sign() != 0 {
			r = e.eval(t.args[1])
		} else {
			r = e.eval(t.args[2])
		}
	case OpEq:
		r = b2i(e.eval(t.args[0]).Cmp(e.eval(t.args[1])) == 0)
	case OpLt:
		r = b2i(e.eval(t.args[0]).Cmp(e.eval(t.args[1])) < 0)
	case OpLe:
		r = b2i(e.eval(t.args[0]).Cmp(e.eval(t.args[1])) <= 0)
	case OpAnd:
		r = b2i(e.eval(t.args[0]).Sign() != 0 && e.eval(t.args[1]).Sign() != 0)
	case OpOr:
		r = b2i(e.eval(t.args[0]).Sign() != 0 || e.eval(t.args[1]).Sign() != 0)
	case OpNot:
		r = b2i(e.eval(t.args[0]).Sign() == 0)
	case OpBV:
		a, b := e.eval(t.args[0]), e.eval(t.args[1])
		r = new(big.Int)
		switch t.name {
		case "bvand":
			r.And(a, b)
		case "bvor":
			r.Or(a, b)
		case "bvxor":
			r.Xor(a, b)
		}
	case OpUF:
		e.miss = true // UF values are not tracked in models: force a solver query
		r = bigZero
		if t.lo != nil && t.lo.Sign() > 0 {
			r = t.lo
		}
	default:
		panic("eval: op")
	}
	e.memo[t] = r
	return r
}

func evalTerm(t *Term, m Model) (*big.Int, bool) {
	e := &evaluator{m: m, memo: map[*Term]*big.Int{}}
	r := e.eval(t)
	return r, !e.miss
}

// ---------------------------------------------------------------------------
// Substitution (summaries)

func substTerm(t *Term, sub map[string]*Term, memo map[*Term]*Term) *Term {
	switch t.op {
	case OpConst:
		return t
	case OpVar:
		if r, ok := sub[t.name]; ok {
			return r
		}
		return t
	}
	if r, ok := memo[t]; ok {
		return r
	}
	args := make([]*Term, len(t.args))
	changed := false
	for i, a := range t.args {
		args[i] = substTerm(a, sub, memo)
		if args[i] != a {
			changed = true
		}
	}
	var r *Term
	if !changed {
		r = t
	} else {
		switch t.op {
		case OpAdd:
			r = mkAdd(args[0], args[1])
		case OpSub:
			r = mkSub(args[0], args[1])
		case OpMulC:
			r = mkMulC(args[0], t.c)
		case OpMul:
			r = mkMul(args[0], args[1])
		case OpDiv:
			r = mkDiv(args[0], t.c)
		case OpMod:
			r = mkMod(args[0], t.c)
		case OpIte:
			r = mkIte(args[0], args[1], args[2])
		case OpEq:
			r = mkEq(args[0], args[1])
		case OpLt:
			r = mkLt(args[0], args[1])
		case OpLe:
			r = mkLe(args[0], args[1])
		case OpAnd:
			r = mkAnd(args[0], args[1])
		case OpOr:
			r = mkOr(args[0], args[1])
		case OpNot:
			r = mkNot(args[0])
		case OpUF:
			r = mkUF(t.name, t.lo, t.hi, args...)
		case OpBV:
			r = mkBV(t.name, uint(t.c.Int64()), args[0], args[1])
		default:
			panic("subst: op")
		}
	}
	memo[t] = r
	return r
}

func sortedKeys[V any](m map[string]V) []string {
	ks := make([]string, 0, len(m))
	for k := range m {
		ks = append(ks, k)
	}
	sort.Strings(ks)
	return ks
}

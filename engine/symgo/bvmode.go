package symgo

// Bit-vector fallback (DESIGN.md §2.3 "BV for bytes and bit-twiddling kernels").  A
// query whose integer terms are all provably within [0, 2^64) and whose multipliers,
// divisors and moduli are powers of two (base64, hex, shifts and masks) is re-encoded
// in QF_BV(64): the same arithmetic is then bit-slicing, which the LIA engines cannot
// decide but a bit-blaster does instantly.  No wrap can occur because every
// intermediate value is below 2^64 by the interval domain, so both encodings agree.

import (
	"fmt"
	"math/big"
	"os/exec"
	"strings"
	"time"
)

var bvLimit = pow2(64)

func isPow2(c *big.Int) (uint, bool) {
	if c.Sign() <= 0 {
		return 0, false
	}
	k := uint(c.BitLen() - 1)
	return k, pow2(k).Cmp(c) == 0
}

type bvBuilder struct {
	slicing int // div/mod/bv nodes seen: the query is worth trying as bit-vectors first
	sb   strings.Builder
	ids  map[*Term]int
	byH  map[[2]uint64]int
	decl map[string]bool
	n    int
	ok   bool
	vars []*Term
}

func bvConst(c *big.Int) string { return fmt.Sprintf("(_ bv%s 64)", c.String()) }

func (q *bvBuilder) intOK(t *Term) bool {
	return t.lo != nil && t.hi != nil && t.lo.Sign() >= 0 && t.hi.Cmp(bvLimit) < 0
}

func (q *bvBuilder) ref(t *Term) string {
	switch t.op {
	case OpConst:
		if t.isBool {
			if t.c.Sign() != 0 {
				return "true"
			}
			return "false"
		}
		if t.c.Sign() < 0 || t.c.Cmp(bvLimit) >= 0 {
			q.ok = false
			return "(_ bv0 64)"
		}
		return bvConst(t.c)
	case OpVar:
		return smtName(t.name)
	}
	return fmt.Sprintf("t%d", q.ids[t])
}

func (q *bvBuilder) declare(v *Term) {
	n := smtName(v.name)
	if q.decl[n] {
		return
	}
	q.decl[n] = true
	q.vars = append(q.vars, v)
	if v.isBool {
		fmt.Fprintf(&q.sb, "(declare-const %s Bool)\n", n)
		return
	}
	if !q.intOK(v) {
		q.ok = false
		return
	}
	fmt.Fprintf(&q.sb, "(declare-const %s (_ BitVec 64))\n", n)
}

func (q *bvBuilder) define(t *Term) {
	if !q.ok || t.op == OpConst {
		return
	}
	if t.op == OpVar {
		q.declare(t)
		return
	}
	if _, ok := q.ids[t]; ok {
		return
	}
	for _, a := range t.args {
		q.define(a)
		if !q.ok {
			return
		}
	}
	h1, h2 := t.hash()
	if id, ok := q.byH[[2]uint64{h1, h2}]; ok {
		q.ids[t] = id
		return
	}
	if !t.isBool && !q.intOK(t) {
		q.ok = false
		return
	}
	a := func(i int) string { return q.ref(t.args[i]) }
	var body string
	switch t.op {
	case OpAdd:
		body = "(bvadd " + a(0) + " " + a(1) + ")"
	case OpSub:
		body = "(bvsub " + a(0) + " " + a(1) + ")" // result within [0,2^62) by its interval
	case OpMulC:
		k, ok := isPow2(t.c)
		if !ok {
			q.ok = false
			return
		}
		body = fmt.Sprintf("(bvshl %s (_ bv%d 64))", a(0), k)
	case OpDiv:
		q.slicing++
		k, ok := isPow2(t.c)
		if !ok {
			q.ok = false
			return
		}
		body = fmt.Sprintf("(bvlshr %s (_ bv%d 64))", a(0), k)
	case OpMod:
		q.slicing++
		_, ok := isPow2(t.c)
		if !ok {
			q.ok = false
			return
		}
		body = "(bvand " + a(0) + " " + bvConst(new(big.Int).Sub(t.c, bigOne)) + ")"
	case OpIte:
		body = "(ite " + a(0) + " " + a(1) + " " + a(2) + ")"
	case OpEq:
		body = "(= " + a(0) + " " + a(1) + ")"
	case OpLt:
		body = "(bvult " + a(0) + " " + a(1) + ")"
	case OpLe:
		body = "(bvule " + a(0) + " " + a(1) + ")"
	case OpAnd:
		body = "(and " + a(0) + " " + a(1) + ")"
	case OpOr:
		body = "(or " + a(0) + " " + a(1) + ")"
	case OpNot:
		body = "(not " + a(0) + ")"
	case OpBV:
		body = "(" + t.name + " " + a(0) + " " + a(1) + ")"
	default:
		q.ok = false
		return
	}
	if !q.ok {
		return
	}
	q.n++
	q.ids[t] = q.n
	q.byH[[2]uint64{h1, h2}] = q.n
	sort := "(_ BitVec 64)"
	if t.isBool {
		sort = "Bool"
	}
	fmt.Fprintf(&q.sb, "(define-fun t%d () %s %s)\n", q.n, sort, body)
}

// bvScript renders the asserted terms in QF_BV; ok=false if some term does not fit.
func bvScript(asserts []*Term) (string, []*Term, bool) {
	s, v, ok, _ := bvScript2(asserts)
	return s, v, ok
}

func bvScript2(asserts []*Term) (string, []*Term, bool, int) {
	q := &bvBuilder{ids: map[*Term]int{}, byH: map[[2]uint64]int{}, decl: map[string]bool{}, ok: true}
	for _, t := range asserts {
		// comparisons between operands outside the BV range cannot be encoded
		q.define(t)
		if !q.ok {
			return "", nil, false, 0
		}
		fmt.Fprintf(&q.sb, "(assert %s)\n", q.ref(t))
	}
	return q.sb.String(), q.vars, q.ok, q.slicing
}

// runBV decides a QF_BV script with a one-shot z3 process.
func runBV(script string, vars []*Term, timeout time.Duration) (checkResult, Model) {
	var names []string
	for _, v := range vars {
		names = append(names, smtName(v.name))
	}
	full := "(set-logic QF_BV)\n" + script + "(check-sat)\n"
	if len(names) > 0 {
		full += "(get-value (" + strings.Join(names, " ") + "))\n"
	}
	cmd := exec.Command("z3-new", "-in", fmt.Sprintf("-t:%d", int(timeout/time.Millisecond)))
	cmd.Stdin = strings.NewReader(full)
	outB, _ := cmd.CombinedOutput()
	out := string(outB)
	lines := strings.SplitN(strings.TrimSpace(out), "\n", 2)
	switch strings.TrimSpace(lines[0]) {
	case "unsat":
		return resUnsat, Model{}
	case "sat":
		m := Model{}
		if len(lines) > 1 {
			toks := tokenize(lines[1])
			byName := map[string]*Term{}
			for _, v := range vars {
				byName[smtName(v.name)] = v
			}
			for i := 0; i+2 < len(toks); i++ {
				if toks[i] == "(" {
					if v, ok := byName[toks[i+1]]; ok {
						val := toks[i+2]
						switch {
						case val == "true":
							m[v.name] = bigOne
						case val == "false":
							m[v.name] = bigZero
						case strings.HasPrefix(val, "#x"):
							n, ok := new(big.Int).SetString(val[2:], 16)
							if ok {
								m[v.name] = n
							}
						case strings.HasPrefix(val, "#b"):
							n, ok := new(big.Int).SetString(val[2:], 2)
							if ok {
								m[v.name] = n
							}
						}
					}
				}
			}
		}
		for _, v := range vars {
			if _, ok := m[v.name]; !ok {
				return resUnknown, nil
			}
		}
		return resSat, m
	}
	return resUnknown, nil
}

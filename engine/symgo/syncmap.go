package symgo

// sync.Map shim: an insertion-ordered map per sync.Map value (the real implementation
// hashes through runtime internals).  Operations are atomic under the cooperative
// scheduler.

import (
	"go/types"
)

func (i *interpreter) syncMap(p *value) *omap {
	m := i.syncMaps[p]
	if m == nil {
		m = newOmap(types.NewInterfaceType(nil, nil))
		i.syncMaps[p] = m
	}
	return m
}

func init() {
	ext := externals
	anyT := types.NewInterfaceType(nil, nil)
	ext["(*sync.Map).Load"] = func(fr *frame, a []value) (value, bool) {
		v, ok := fr.i.syncMap(a[0].(*value)).lookup(a[1], fr.decide)
		if !ok {
			return tuple{iface{}, false}, true
		}
		return tuple{v, true}, true
	}
	ext["(*sync.Map).Store"] = func(fr *frame, a []value) (value, bool) {
		fr.i.syncMap(a[0].(*value)).insert(a[1], a[2], fr.decide)
		return nil, true
	}
	ext["(*sync.Map).LoadOrStore"] = func(fr *frame, a []value) (value, bool) {
		m := fr.i.syncMap(a[0].(*value))
		if v, ok := m.lookup(a[1], fr.decide); ok {
			return tuple{v, true}, true
		}
		m.insert(a[1], a[2], fr.decide)
		return tuple{a[2], false}, true
	}
	ext["(*sync.Map).LoadAndDelete"] = func(fr *frame, a []value) (value, bool) {
		m := fr.i.syncMap(a[0].(*value))
		v, ok := m.lookup(a[1], fr.decide)
		if !ok {
			return tuple{iface{}, false}, true
		}
		m.delete(a[1], fr.decide)
		return tuple{v, true}, true
	}
	ext["(*sync.Map).Delete"] = func(fr *frame, a []value) (value, bool) {
		fr.i.syncMap(a[0].(*value)).delete(a[1], fr.decide)
		return nil, true
	}
	ext["(*sync.Map).Swap"] = func(fr *frame, a []value) (value, bool) {
		m := fr.i.syncMap(a[0].(*value))
		v, ok := m.lookup(a[1], fr.decide)
		m.insert(a[1], a[2], fr.decide)
		if !ok {
			return tuple{iface{}, false}, true
		}
		return tuple{v, true}, true
	}
	ext["(*sync.Map).CompareAndSwap"] = func(fr *frame, a []value) (value, bool) {
		m := fr.i.syncMap(a[0].(*value))
		v, ok := m.lookup(a[1], fr.decide)
		if ok && symEquals(anyT, v, a[2], fr.decide) {
			m.insert(a[1], a[3], fr.decide)
			return true, true
		}
		return false, true
	}
	ext["(*sync.Map).CompareAndDelete"] = func(fr *frame, a []value) (value, bool) {
		m := fr.i.syncMap(a[0].(*value))
		v, ok := m.lookup(a[1], fr.decide)
		if ok && symEquals(anyT, v, a[2], fr.decide) {
			m.delete(a[1], fr.decide)
			return true, true
		}
		return false, true
	}
	ext["(*sync.Map).Clear"] = func(fr *frame, a []value) (value, bool) {
		delete(fr.i.syncMaps, a[0].(*value))
		return nil, true
	}
	ext["(*sync.Map).Range"] = func(fr *frame, a []value) (value, bool) {
		m := fr.i.syncMap(a[0].(*value))
		for _, e := range append([]*oentry(nil), m.entries...) {
			if e.dead {
				continue
			}
			if r, _ := call(fr.i, fr, fr.pos, a[1], []value{e.key, e.val}).(bool); !r {
				break
			}
		}
		return nil, true
	}
}

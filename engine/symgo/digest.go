package symgo

// Cryptographic digests and the ChaCha8 generator of math/rand/v2 (assembly / FIPS
// wrappers, no interpretable body).  On concrete input the real function runs natively;
// on symbolic input a digest is an uninterpreted function: fresh unconstrained bytes,
// the same bytes for a syntactically identical input on the same path (an
// over-approximation - a model that depends on it is filtered by native replay).

import (
	"crypto/md5"
	"crypto/sha1"
	"crypto/sha256"
	"crypto/sha512"
	"fmt"
	mrand "math/rand/v2"
)

func concBytes(vs []value) ([]byte, bool) {
	out := make([]byte, len(vs))
	for i, v := range vs {
		c, ok := v.(uint8)
		if !ok {
			return nil, false
		}
		out[i] = c
	}
	return out, true
}

func bytesArray(b []byte) array {
	a := make(array, len(b))
	for i, c := range b {
		a[i] = c
	}
	return a
}

func streamKey(vs []value) string {
	s := ""
	for _, v := range vs {
		if t, ok := v.(*Term); ok {
			h1, h2 := t.hash()
			s += fmt.Sprintf("t%x.%x,", h1, h2)
		} else {
			s += fmt.Sprintf("%v,", v)
		}
	}
	return s
}

func init() {
	digest := func(name string, n int, f func([]byte) []byte) {
		externals[name] = func(fr *frame, a []value) (value, bool) {
			data, _ := a[0].([]value)
			if conc, ok := concBytes(data); ok {
				return bytesArray(f(conc)), true
			}
			if fr.i.digests == nil {
				fr.i.digests = map[string]array{}
			}
			key := name + "|" + streamKey(data)
			if r, ok := fr.i.digests[key]; ok {
				return append(array(nil), r...), true
			}
			r := make(array, n)
			for k := range r {
				r[k] = fr.i.p.fresh("digest", byteLo, byteHi)
			}
			fr.i.digests[key] = r
			return append(array(nil), r...), true
		}
	}
	digest("crypto/sha256.Sum256", 32, func(b []byte) []byte { s := sha256.Sum256(b); return s[:] })
	digest("crypto/sha256.Sum224", 28, func(b []byte) []byte { s := sha256.Sum224(b); return s[:] })
	digest("crypto/sha512.Sum512", 64, func(b []byte) []byte { s := sha512.Sum512(b); return s[:] })
	digest("crypto/sha1.Sum", 20, func(b []byte) []byte { s := sha1.Sum(b); return s[:] })
	digest("crypto/md5.Sum", 16, func(b []byte) []byte { s := md5.Sum(b); return s[:] })

	// math/rand/v2.ChaCha8: the real generator, kept in a side table keyed by the
	// interpreter object that stands for it (deterministic given a concrete seed)
	externals["math/rand/v2.NewChaCha8"] = func(fr *frame, a []value) (value, bool) {
		seedV := a[0].(array)
		var seed [32]byte
		for k := range seed {
			c, ok := seedV[k].(uint8)
			if !ok {
				abort("math/rand/v2.NewChaCha8: symbolic seed")
			}
			seed[k] = c
		}
		if fr.i.chacha == nil {
			fr.i.chacha = map[*value]*mrand.ChaCha8{}
		}
		cell := new(value)
		*cell = zero(fr.i.namedType("math/rand/v2", "ChaCha8"))
		fr.i.chacha[cell] = mrand.NewChaCha8(seed)
		return cell, true
	}
	externals["(*math/rand/v2.ChaCha8).Uint64"] = func(fr *frame, a []value) (value, bool) {
		g := fr.i.chacha[a[0].(*value)]
		if g == nil {
			abort("math/rand/v2.ChaCha8: generator not created by NewChaCha8")
		}
		return g.Uint64(), true
	}
	externals["(*math/rand/v2.ChaCha8).Read"] = func(fr *frame, a []value) (value, bool) {
		g := fr.i.chacha[a[0].(*value)]
		if g == nil {
			abort("math/rand/v2.ChaCha8: generator not created by NewChaCha8")
		}
		p := a[1].([]value)
		buf := make([]byte, len(p))
		g.Read(buf)
		for k := range p {
			p[k] = buf[k]
		}
		return tuple{len(p), iface{}}, true
	}
}

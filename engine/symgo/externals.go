package symgo

// Intercepts: harness primitives (vx*), symbolic-capable shims for std functions
// that have no interpretable body (assembly, unsafe), and native calls of pure std
// functions on concrete arguments.  Every intercept used on a run is reported in
// the evidence file.

import (
	"fmt"
	"go/types"
	"math/big"
	"net/http"
	"net/textproto"
	"os"
	"strconv"
	"strings"
	"time"

	"golang.org/x/tools/go/ssa"
)

// an external returns (result, handled); handled=false falls through to interpretation.
type externalFn func(fr *frame, args []value) (value, bool)

var externals = map[string]externalFn{}

const targetPrefix = "github.com/bartventer/httpcache"

func isVxPrim(fn *ssa.Function) (string, bool) {
	if fn.Pkg == nil || !strings.HasPrefix(fn.Pkg.Pkg.Path(), targetPrefix) {
		return "", false
	}
	n := fn.Name()
	if strings.HasPrefix(n, "vx") {
		if _, ok := vxPrims[n]; ok {
			return n, true
		}
		if _, ok := vxPrimsExtra[n]; ok {
			return n, true
		}
	}
	return "", false
}

var vxPrims map[string]externalFn

// blob is an opaque serialised token (A-SER / A-JSON boundary): the only element of a
// []byte produced by the intercepted marshal functions.
type blob struct {
	kind string
	v    value
}

type unsafePtr struct {
	b []value // slice data
	s value   // string data
}

func argStr(v value) string { return concreteString(v, "primitive argument") }

// instants: year 1..9999 by default; harnesses may narrow the range (vxTimeRange)
func minTimeSec() *big.Int { return bi(-62135596800) }
func maxTimeSec() *big.Int { return bi(253402300799) }

func (p *pathState) timeRange() (*big.Int, *big.Int) {
	if p.tlo != nil {
		return p.tlo, p.thi
	}
	return minTimeSec(), maxTimeSec()
}

func mkTimeValue(sec, nsec value) structure {
	// time.Time{wall: nsec, ext: sec + unixToInternal, loc: nil}
	var ext, wall value
	if s, ok := sec.(*Term); ok {
		ext = mkAdd(s, mkConstI(unixToInternal))
	} else {
		ext = sec.(int64) + unixToInternal
	}
	if n, ok := nsec.(*Term); ok {
		wall = n
	} else {
		wall = uint64(nsec.(int64))
	}
	return structure{wall, ext, (*value)(nil)}
}

func init() {
	vxPrims = map[string]externalFn{
		"vxBool": func(fr *frame, a []value) (value, bool) {
			return simplifyBool(fr.i.p.declare(argStr(a[0]), true, nil, nil)), true
		},
		"vxInt64": func(fr *frame, a []value) (value, bool) {
			lo, size := typeRange(types.Typ[types.Int64])
			return fr.i.p.declare(argStr(a[0]), false, lo, new(big.Int).Sub(new(big.Int).Add(lo, size), bigOne)), true
		},
		"vxIntRange": func(fr *frame, a []value) (value, bool) {
			lo, hi := bigOf(a[1]), bigOf(a[2])
			if lo.Cmp(hi) == 0 {
				return a[1], true
			}
			return fr.i.p.declare(argStr(a[0]), false, lo, hi), true
		},
		"vxInt": func(fr *frame, a []value) (value, bool) {
			lo, hi := bigOf(a[1]), bigOf(a[2])
			if lo.Cmp(hi) == 0 {
				return a[1], true
			}
			return fr.i.p.declare(argStr(a[0]), false, lo, hi), true
		},
		"vxByte": func(fr *frame, a []value) (value, bool) {
			return fr.i.p.declare(argStr(a[0]), false, byteLo, byteHi), true
		},
		"vxByteIn": func(fr *frame, a []value) (value, bool) {
			lo, hi := bigOf(a[1]), bigOf(a[2])
			if lo.Cmp(hi) == 0 {
				return a[1], true
			}
			return fr.i.p.declare(argStr(a[0]), false, lo, hi), true
		},
		"vxChoice": func(fr *frame, a []value) (value, bool) {
			n := int(asInt64(a[1]))
			k := fr.i.p.choice(n)
			fr.i.p.recordChoice(argStr(a[0]), k)
			return k, true
		},
		"vxAssume": func(fr *frame, a []value) (value, bool) {
			fr.i.p.assume(toTerm(a[0]))
			return nil, true
		},
		"vxAssert": func(fr *frame, a []value) (value, bool) {
			fr.i.p.assertCond(toTerm(a[0]), argStr(a[1]))
			return nil, true
		},
		"vxCover": func(fr *frame, a []value) (value, bool) {
			ex := fr.i.ex
			ex.mu.Lock()
			ex.res.Covers[argStr(a[0])]++
			ex.mu.Unlock()
			return nil, true
		},
		"vxTime": func(fr *frame, a []value) (value, bool) {
			n := argStr(a[0])
			lo, hi := fr.i.p.timeRange()
			sec := fr.i.p.declare(n+".sec", false, lo, hi)
			nsec := fr.i.p.declare(n+".nsec", false, bigZero, bi(999999999))
			return mkTimeValue(sec, nsec), true
		},
		"vxTimeSec": func(fr *frame, a []value) (value, bool) {
			n := argStr(a[0])
			lo, hi := fr.i.p.timeRange()
			sec := fr.i.p.declare(n+".sec", false, lo, hi)
			return mkTimeValue(sec, int64(0)), true
		},
		"vxHTTPDate": func(fr *frame, a []value) (value, bool) {
			n := argStr(a[0])
			// Format(http.TimeFormat) needs year 0..9999; restrict to year 1..9999 like vxTime
			lo, hi := fr.i.p.timeRange()
			sec := fr.i.p.declare(n+".sec", false, lo, hi)
			return sdate{sec: sec}, true
		},
		"vxHTTPDateOpt": func(fr *frame, a []value) (value, bool) {
			n := argStr(a[0])
			lo, hi := fr.i.p.timeRange()
			sec := fr.i.p.declare(n+".sec", false, lo, hi)
			valid := fr.i.p.declare(n+".valid", true, nil, nil)
			return sdate{sec: sec, valid: valid}, true
		},
		"vxDigits": func(fr *frame, a []value) (value, bool) {
			n := argStr(a[0])
			k := int(asInt64(a[1]))
			b := make([]value, k)
			for i := range b {
				b[i] = fr.i.p.declare(fmt.Sprintf("%s.d%d", n, i), false, bi('0'), bi('9'))
			}
			return mkSstr(b), true
		},
		"vxStr": func(fr *frame, a []value) (value, bool) {
			n := argStr(a[0])
			k := int(asInt64(a[1]))
			b := make([]value, k)
			for i := range b {
				b[i] = fr.i.p.declare(fmt.Sprintf("%s.b%d", n, i), false, byteLo, byteHi)
			}
			return mkSstr(b), true
		},
		"vxSel": func(fr *frame, a []value) (value, bool) {
			// vxSel(name, x, y): x if the Bool variable name holds, else y (same length)
			c := toTerm(a[0])
			x, y := a[1], a[2]
			if b, ok := c.constBool(); ok {
				if b {
					return x, true
				}
				return y, true
			}
			bx, by := strBytes(x), strBytes(y)
			if len(bx) != len(by) {
				abort("vxSel: strings of different length")
			}
			r := make([]value, len(bx))
			for i := range bx {
				t := mkIte(c, toTerm(bx[i]), toTerm(by[i]))
				if t.op == OpConst {
					r[i] = uint8(t.c.Uint64())
				} else {
					r[i] = t
				}
			}
			return mkSstr(r), true
		},
		"vxSummary": func(fr *frame, a []value) (value, bool) {
			var res []value
			for _, v := range a[1].([]value) {
				res = append(res, v.(iface).v)
			}
			fr.i.p.recordSummary(argStr(a[0]), res)
			return nil, true
		},
		"vxYield": func(fr *frame, a []value) (value, bool) {
			sc := fr.i.sched
			if sc.preemptBound >= 0 && sc.preemptions >= sc.preemptBound {
				return nil, true // preemption budget used up: the goroutine runs on to its next blocking point
			}
			before := sc.switches
			sc.yield(fr, always)
			if sc.switches != before {
				sc.preemptions++
			}
			return nil, true
		},
		"vxPreemptBound": func(fr *frame, a []value) (value, bool) {
			// at most n preemptive switches (at vxYield) from now on; n < 0 lifts the bound
			fr.i.sched.preemptBound = int(asInt64(a[0]))
			fr.i.sched.preemptions = 0
			return nil, true
		},
		"vxIdleWait": func(fr *frame, a []value) (value, bool) {
			// blocks until every other goroutine is blocked (virtual time advances only
			// then, as in testing/synctest); the main goroutine waiting in vxRunAll counts
			// as blocked
			sc := fr.i.sched
			me := sc.cur
			me.idleWaiter = true
			defer func() { me.idleWaiter = false }()
			sc.yield(fr, func() bool {
				for _, g := range sc.gs {
					if g == me || g.done {
						continue
					}
					if g.main && sc.inRunAll {
						continue
					}
					if g.idleWaiter {
						continue
					}
					if g.ready == nil || g.ready() {
						return false
					}
				}
				return true
			})
			return nil, true
		},
		"vxRunAll": func(fr *frame, a []value) (value, bool) {
			// let every other goroutine run until none of them can make progress
			sc := fr.i.sched
			sc.inRunAll = true
			defer func() { sc.inRunAll = false }()
			for n := 0; ; n++ {
				others := 0
				for _, g := range sc.runnable() {
					if g != sc.cur {
						others++
					}
				}
				if others == 0 {
					return nil, true
				}
				if n > 10000 {
					abort("vxRunAll: goroutines do not quiesce")
				}
				sc.yieldToOthers(fr)
			}
		},
		"vxLiveGoroutines": func(fr *frame, a []value) (value, bool) {
			n := 0
			for _, g := range fr.i.sched.gs {
				if !g.done && !g.main {
					n++
				}
			}
			return n, true
		},
		"vxBgPanics": func(fr *frame, a []value) (value, bool) {
			return len(fr.i.sched.bgPanics), true
		},
		"vxSetenv": func(fr *frame, a []value) (value, bool) {
			fr.i.p.env[argStr(a[0])] = a[1]
			return nil, true
		},
		"vxSeq": func(fr *frame, a []value) (value, bool) {
			n := argStr(a[0])
			k := fr.i.p.seq[n]
			fr.i.p.seq[n] = k + 1
			return k, true
		},
		"vxSeqPeek": func(fr *frame, a []value) (value, bool) { return fr.i.p.seq[argStr(a[0])], true },
		"vxTimeRange": func(fr *frame, a []value) (value, bool) {
			fr.i.p.tlo, fr.i.p.thi = bigOf(a[0]), bigOf(a[1])
			return nil, true
		},
		"vxLog": func(fr *frame, a []value) (value, bool) {
			if os.Getenv("VX_DEBUG") != "" {
				for _, x := range a[0].([]value) {
					fmt.Fprintf(os.Stderr, "VXLOG %s ", toString(x))
				}
				fmt.Fprintln(os.Stderr)
			}
			return nil, true
		},
		"vxStop": func(fr *frame, a []value) (value, bool) { panic(pathEnd{}) },
		"vxTier": func(fr *frame, a []value) (value, bool) { return os.Getenv("VX_TIER"), true },
		"vxProp": func(fr *frame, a []value) (value, bool) { return os.Getenv("VX_PROP"), true },
		"vxLabelOn": func(fr *frame, a []value) (value, bool) {
			// whether assertions with this label prefix are checked in this run
			pre := argStr(a[0])
			ls := fr.i.ex.cfg.Labels
			if len(ls) == 0 {
				return true, true
			}
			for _, l := range ls {
				if strings.HasPrefix(l, pre) || strings.HasPrefix(pre, l) {
					return true, true
				}
			}
			return false, true
		},
		"vxIsSymbolic": func(fr *frame, a []value) (value, bool) { return true, true },
		"vxAtoi": func(fr *frame, a []value) (value, bool) {
			// oracle-side decimal parse: (value, ok)
			switch s := a[0].(type) {
			case snum:
				return tuple{concretize(types.Typ[types.Int64], s.n), true}, true
			case string:
				n, err := strconv.ParseInt(s, 10, 64)
				return tuple{n, err == nil}, true
			case sstr:
				// decimal digits with symbolic content (at most 18, so no overflow)
				if len(s.b) == 0 || len(s.b) > 18 {
					abort("vxAtoi of a symbolic string of %d bytes", len(s.b))
				}
				ok := tTrue
				val := mkConstI(0)
				for _, b := range s.b {
					t := toTerm(b)
					ok = mkAnd(ok, mkAnd(mkLe(mkConstI('0'), t), mkLe(t, mkConstI('9'))))
					val = mkAdd(mkMulC(val, bi(10)), mkSub(t, mkConstI('0')))
				}
				return tuple{concretize(types.Typ[types.Int64], mkIte(ok, val, mkConstI(0))), simplifyBool(ok)}, true
			}
			abort("vxAtoi of %s", describeString(a[0]))
			return nil, true
		},
		"vxDateSec": func(fr *frame, a []value) (value, bool) {
			switch s := a[0].(type) {
			case sdate:
				return tuple{concretize(types.Typ[types.Int64], s.sec), true}, true
			case string:
				t, err := http.ParseTime(s)
				if err != nil {
					return tuple{int64(0), false}, true
				}
				return tuple{t.Unix(), true}, true
			}
			abort("vxDateSec of %s", describeString(a[0]))
			return nil, true
		},
	}

	ext := externals
	// ---- strings.Builder (unsafe inside)
	ext["(*strings.Builder).String"] = func(fr *frame, a []value) (value, bool) {
		b := (*a[0].(*value)).(structure)
		buf, _ := b[1].([]value)
		return mkSstr(append([]value(nil), buf...)), true
	}
	ext["(*strings.Builder).copyCheck"] = func(fr *frame, a []value) (value, bool) { return nil, true }
	ext["internal/bytealg.MakeNoZero"] = func(fr *frame, a []value) (value, bool) {
		n := asInt64(a[0])
		s := make([]value, n)
		for i := range s {
			s[i] = uint8(0)
		}
		return s, true
	}
	ext["internal/bytealg.IndexByteString"] = func(fr *frame, a []value) (value, bool) {
		return indexByte(fr, strBytes(a[0]), a[1]), true
	}
	ext["internal/bytealg.IndexByte"] = func(fr *frame, a []value) (value, bool) {
		return indexByte(fr, a[0].([]value), a[1]), true
	}
	ext["strings.IndexByte"] = ext["internal/bytealg.IndexByteString"]
	ext["bytes.IndexByte"] = ext["internal/bytealg.IndexByte"]
	ext["internal/bytealg.LastIndexByteString"] = func(fr *frame, a []value) (value, bool) {
		return lastIndexByte(fr, strBytes(a[0]), a[1]), true
	}
	ext["strings.LastIndexByte"] = ext["internal/bytealg.LastIndexByteString"]
	ext["internal/bytealg.CountString"] = func(fr *frame, a []value) (value, bool) {
		n := 0
		for _, b := range strBytes(a[0]) {
			if fr.decide(byteEq(b, a[1])) {
				n++
			}
		}
		return n, true
	}
	ext["internal/bytealg.IndexString"] = func(fr *frame, a []value) (value, bool) {
		return indexString(fr, strBytes(a[0]), strBytes(a[1])), true
	}
	ext["strings.Index"] = func(fr *frame, a []value) (value, bool) {
		if isStringLike(a[0]) && isStringLike(a[1]) {
			if s, ok := a[0].(string); ok {
				if t, ok := a[1].(string); ok {
					return strings.Index(s, t), true
				}
			}
			switch a[0].(type) {
			case sdate, snum:
				abort("strings.Index on opaque string")
			}
			return indexString(fr, strBytes(a[0]), strBytes(a[1])), true
		}
		return nil, false
	}
	ext["internal/stringslite.Index"] = ext["strings.Index"]
	ext["internal/bytealg.Equal"] = func(fr *frame, a []value) (value, bool) {
		x, y := a[0].([]value), a[1].([]value)
		return strEq(mkSstr(x), mkSstr(y)), true
	}
	ext["maps.clone"] = func(fr *frame, a []value) (value, bool) {
		it := a[0].(iface)
		m, _ := it.v.(*omap)
		if m == nil {
			return it, true
		}
		c := newOmap(m.kt)
		for _, e := range m.entries {
			if !e.dead {
				c.insert(e.key, e.val, fr.decide)
			}
		}
		return iface{it.t, c}, true
	}
	// ASCII case mapping on strings with symbolic bytes, branch-free (the std versions
	// fork per letter); non-ASCII symbolic bytes fall back to interpreting the real code
	caseMap := func(toLower bool) externalFn {
		return func(fr *frame, a []value) (value, bool) {
			s, ok := a[0].(sstr)
			if !ok {
				return nil, false
			}
			out := make([]value, len(s.b))
			for i, b := range s.b {
				switch c := b.(type) {
				case uint8:
					if c >= 0x80 {
						return nil, false
					}
					if toLower && 'A' <= c && c <= 'Z' {
						c += 32
					} else if !toLower && 'a' <= c && c <= 'z' {
						c -= 32
					}
					out[i] = c
				case *Term:
					if c.hi == nil || c.hi.Cmp(bi(127)) > 0 || c.lo == nil || c.lo.Sign() < 0 {
						return nil, false
					}
					var t *Term
					if toLower {
						t = mkIte(mkAnd(mkLe(mkConstI('A'), c), mkLe(c, mkConstI('Z'))), mkAdd(c, mkConstI(32)), c)
					} else {
						t = mkIte(mkAnd(mkLe(mkConstI('a'), c), mkLe(c, mkConstI('z'))), mkAdd(c, mkConstI(-32)), c)
					}
					if t.op == OpConst {
						out[i] = uint8(t.c.Uint64())
					} else {
						out[i] = t
					}
				}
			}
			return mkSstr(out), true
		}
	}
	// (*strings.Replacer).Replace on a string with symbolic bytes: single-byte patterns only
	ext["(*strings.Replacer).Replace"] = func(fr *frame, a []value) (value, bool) {
		src, ok := a[1].(sstr)
		if !ok {
			return nil, false // concrete: interpret the real code
		}
		rp := (*a[0].(*value)).(structure)
		rt := fr.i.namedType("strings", "Replacer")
		oldnew, _ := rp[fieldIndex(rt, "oldnew")].([]value)
		if len(oldnew) == 0 {
			// buildOnce (run by an earlier Replace of a concrete string) cleared the field
			oldnew = fr.i.replacerPairs[a[0].(*value)]
		}
		var out []value
		for pos := 0; pos < len(src.b); {
			replaced := false
			for k := 0; k+1 < len(oldnew); k += 2 {
				old, isStr := oldnew[k].(string)
				if !isStr || len(old) == 0 {
					abort("strings.Replacer with an empty or symbolic pattern on a symbolic string")
				}
				if pos+len(old) > len(src.b) {
					continue
				}
				m := tTrue
				for c := 0; c < len(old); c++ {
					m = mkAnd(m, byteEq(src.b[pos+c], old[c]))
				}
				if fr.decide(m) {
					out = append(out, strBytes(oldnew[k+1])...)
					pos += len(old)
					replaced = true
					break
				}
			}
			if !replaced {
				out = append(out, src.b[pos])
				pos++
			}
		}
		return mkSstr(out), true
	}
	ext["(*strings.Replacer).buildOnce"] = func(fr *frame, a []value) (value, bool) {
		// remember the pairs: the real buildOnce clears r.oldnew
		rp := (*a[0].(*value)).(structure)
		rt := fr.i.namedType("strings", "Replacer")
		if on, _ := rp[fieldIndex(rt, "oldnew")].([]value); len(on) > 0 {
			if fr.i.replacerPairs == nil {
				fr.i.replacerPairs = map[*value][]value{}
			}
			fr.i.replacerPairs[a[0].(*value)] = append([]value(nil), on...)
		}
		return nil, false
	}
	ext["strings.ToLower"] = caseMap(true)
	ext["strings.ToUpper"] = caseMap(false)
	ext["internal/abi.NoEscape"] = func(fr *frame, a []value) (value, bool) { return a[0], true }
	ext["runtime.Callers"] = func(fr *frame, a []value) (value, bool) { return 0, true }
	ext["runtime.KeepAlive"] = func(fr *frame, a []value) (value, bool) { return nil, true }
	ext["os.Getenv"] = func(fr *frame, a []value) (value, bool) {
		if v, ok := fr.i.p.env[argStr(a[0])]; ok {
			return v, true
		}
		return "", true
	}

	// ---- strconv
	ext["strconv.Itoa"] = func(fr *frame, a []value) (value, bool) {
		if t, ok := a[0].(*Term); ok {
			return snum{t}, true
		}
		return strconv.Itoa(int(asInt64(a[0]))), true
	}
	ext["strconv.FormatInt"] = func(fr *frame, a []value) (value, bool) {
		if t, ok := a[0].(*Term); ok && asInt64(a[1]) == 10 {
			return snum{t}, true
		}
		return strconv.FormatInt(asInt64(a[0]), int(asInt64(a[1]))), true
	}
	ext["strconv.FormatUint"] = func(fr *frame, a []value) (value, bool) {
		if h, ok := a[0].(hashVal); ok {
			return h.asString(), true
		}
		if t, ok := a[0].(*Term); ok && asInt64(a[1]) == 10 {
			return snum{t}, true
		}
		return strconv.FormatUint(a[0].(uint64), int(asInt64(a[1]))), true
	}
	ext["strconv.Atoi"] = func(fr *frame, a []value) (value, bool) {
		switch s := a[0].(type) {
		case snum:
			return tuple{concretize(types.Typ[types.Int], wrapTo(types.Typ[types.Int], s.n)), iface{}}, true
		case string:
			n, err := strconv.Atoi(s)
			return tuple{n, fr.i.nativeErr(err)}, true
		}
		return nil, false // sstr: interpret the real code
	}
	ext["strconv.ParseInt"] = func(fr *frame, a []value) (value, bool) {
		switch s := a[0].(type) {
		case snum:
			if asInt64(a[1]) == 10 && asInt64(a[2]) == 64 {
				return tuple{concretize(types.Typ[types.Int64], s.n), iface{}}, true
			}
		case string:
			n, err := strconv.ParseInt(s, int(asInt64(a[1])), int(asInt64(a[2])))
			return tuple{n, fr.i.nativeErr(err)}, true
		}
		return nil, false
	}
	ext["strconv.ParseFloat"] = func(fr *frame, a []value) (value, bool) {
		f, err := strconv.ParseFloat(concreteString(a[0], "strconv.ParseFloat"), int(asInt64(a[1])))
		return tuple{f, fr.i.nativeErr(err)}, true
	}
	ext["strconv.FormatFloat"] = func(fr *frame, a []value) (value, bool) {
		return strconv.FormatFloat(a[0].(float64), a[1].(byte), int(asInt64(a[2])), int(asInt64(a[3]))), true
	}
	ext["strconv.Quote"] = func(fr *frame, a []value) (value, bool) {
		if s, ok := a[0].(string); ok {
			return strconv.Quote(s), true
		}
		return "\"<symbolic>\"", true
	}

	// ---- header canonicalisation (concrete keys only)
	ext["net/textproto.CanonicalMIMEHeaderKey"] = func(fr *frame, a []value) (value, bool) {
		return textproto.CanonicalMIMEHeaderKey(concreteString(a[0], "CanonicalMIMEHeaderKey")), true
	}
	ext["net/http.CanonicalHeaderKey"] = ext["net/textproto.CanonicalMIMEHeaderKey"]

	// ---- time
	ext["net/http.ParseTime"] = func(fr *frame, a []value) (value, bool) {
		switch s := a[0].(type) {
		case sdate:
			if s.valid != nil && !fr.decide(s.valid) {
				return tuple{zeroTime(), fr.i.newError("parsing time \"0\": invalid")}, true
			}
			return tuple{mkTimeValue(concretize(types.Typ[types.Int64], s.sec), int64(0)), iface{}}, true
		case string:
			t, err := http.ParseTime(s)
			if err != nil {
				return tuple{zeroTime(), fr.i.nativeErr(err)}, true
			}
			return tuple{timeToValue(t), iface{}}, true
		}
		abort("http.ParseTime of %s", describeString(a[0]))
		return nil, true
	}
	ext["time.Parse"] = func(fr *frame, a []value) (value, bool) {
		layout := concreteString(a[0], "time.Parse layout")
		if d, ok := a[1].(sdate); ok {
			if d.valid != nil && !fr.decide(d.valid) {
				return tuple{zeroTime(), fr.i.newError("parsing time \"0\": invalid")}, true
			}
			if layout == http.TimeFormat {
				return tuple{mkTimeValue(concretize(types.Typ[types.Int64], d.sec), int64(0)), iface{}}, true
			}
			// an IMF-fixdate never parses under another layout used by this code base
			if layout == time.RFC1123 {
				// "GMT" is accepted by RFC1123's MST zone field: same instant
				return tuple{mkTimeValue(concretize(types.Typ[types.Int64], d.sec), int64(0)), iface{}}, true
			}
			abort("time.Parse(%q) of symbolic HTTP date", layout)
		}
		t, err := time.Parse(layout, concreteString(a[1], "time.Parse value"))
		if err != nil {
			return tuple{zeroTime(), fr.i.nativeErr(err)}, true
		}
		if t.Location() != time.UTC {
			abort("time.Parse produced a non-UTC time")
		}
		return tuple{timeToValue(t), iface{}}, true
	}
	ext["(time.Time).UTC"] = func(fr *frame, a []value) (value, bool) {
		t := a[0].(structure)
		if isMonotonicFree(t[0]) {
			return structure{t[0], t[1], (*value)(nil)}, true
		}
		abort("(time.Time).UTC on a time with possible monotonic reading")
		return nil, true
	}
	ext["(time.Time).Format"] = func(fr *frame, a []value) (value, bool) {
		t := a[0].(structure)
		layout := concreteString(a[1], "time.Format layout")
		if lp, ok := t[2].(*value); !ok || lp != nil {
			abort("(time.Time).Format with a location")
		}
		if !anySymbolic(t) {
			return valueToTime(t).Format(layout), true
		}
		if layout != http.TimeFormat || !isMonotonicFree(t[0]) {
			abort("(time.Time).Format(%q) of a symbolic time", layout)
		}
		sec := mkAdd(toTerm(t[1]), mkConstI(-unixToInternal))
		if sec.lo == nil || sec.hi == nil || sec.lo.Cmp(bi(-62167219200)) < 0 || sec.hi.Cmp(maxTimeSec()) > 0 {
			abort("(time.Time).Format: symbolic time outside year 0..9999")
		}
		return sdate{sec: sec}, true
	}
	ext["(time.Duration).Seconds"] = func(fr *frame, a []value) (value, bool) {
		if t, ok := a[0].(*Term); ok {
			return symFloat{t: t, num: bigOne, den: bi(1_000_000_000), seconds: true}, true
		}
		return nil, false
	}
	// log/slog: formatting-side helper whose result no code under test inspects
	ext["log/slog.TimeValue"] = func(fr *frame, a []value) (value, bool) {
		return zero(fr.fn.Signature.Results().At(0).Type()), true
	}
	ext["time.Now"] = func(fr *frame, a []value) (value, bool) {
		abort("time.Now reached: the real clock is not part of any claim (use the harness clock)")
		return nil, true
	}
	ext["time.Since"] = ext["time.Now"]
	ext["time.runtimeNano"] = func(fr *frame, a []value) (value, bool) { return int64(1), true }

	// ---- fmt / errors
	ext["fmt.Sprintf"] = func(fr *frame, a []value) (value, bool) { return fr.i.sprintf(a[0], a[1].([]value)), true }
	ext["fmt.Errorf"] = func(fr *frame, a []value) (value, bool) { return fr.i.errorf(a[0], a[1].([]value)), true }
	fprint := func(fr *frame, w value, text value) value {
		// formatting is not the subject of any property: the text is an opaque stand-in
		it := w.(iface)
		if it.t == nil {
			panic(nilDeref())
		}
		m := fr.i.prog.LookupMethod(it.t, nil, "Write")
		if m == nil {
			abort("fmt.Fprint*: writer %v has no Write", it.t)
		}
		str, _ := text.(string)
		return call(fr.i, fr, 0, m, []value{it.v, strBytes(str)})
	}
	ext["fmt.Fprintf"] = func(fr *frame, a []value) (value, bool) {
		return fprint(fr, a[0], fr.i.sprintf(a[1], a[2].([]value))), true
	}
	ext["fmt.Fprintln"] = func(fr *frame, a []value) (value, bool) {
		return fprint(fr, a[0], fr.i.sprintf("%v\n", a[1].([]value))), true
	}
	ext["fmt.Fprint"] = func(fr *frame, a []value) (value, bool) {
		return fprint(fr, a[0], fr.i.sprintf("%v", a[1].([]value))), true
	}
	ext["fmt.Sprint"] = func(fr *frame, a []value) (value, bool) { return fr.i.sprintf("%v", a[0].([]value)), true }
	ext["errors.Is"] = func(fr *frame, a []value) (value, bool) { return fr.i.errorsIs(fr, a[0].(iface), a[1].(iface), 0), true }

	// ---- sync
	ext["(*sync.Once).Do"] = func(fr *frame, a []value) (value, bool) {
		o := a[0].(*value)
		if !fr.i.onceDone[o] {
			fr.i.onceDone[o] = true
			call(fr.i, fr, fr.pos, a[1], nil)
		}
		return nil, true
	}
	lock := func(write bool) externalFn {
		return func(fr *frame, a []value) (value, bool) {
			m := a[0].(*value)
			st := fr.i.mutexes[m]
			if st == nil {
				st = &mutexState{}
				fr.i.mutexes[m] = st
			}
			if write {
				if st.writer || st.readers > 0 {
					fr.i.sched.yield(fr, func() bool { return !st.writer && st.readers == 0 })
				}
				st.writer = true
			} else {
				if st.writer {
					fr.i.sched.yield(fr, func() bool { return !st.writer })
				}
				st.readers++
			}
			return nil, true
		}
	}
	unlock := func(write bool) externalFn {
		return func(fr *frame, a []value) (value, bool) {
			st := fr.i.mutexes[a[0].(*value)]
			if st == nil || (write && !st.writer) || (!write && st.readers == 0) {
				panic(targetPanic{iface{types.Typ[types.String], "fatal error: sync: unlock of unlocked mutex"}})
			}
			if write {
				st.writer = false
			} else {
				st.readers--
			}
			return nil, true
		}
	}
	ext["(*sync.Mutex).Lock"] = lock(true)
	ext["(*sync.Mutex).Unlock"] = unlock(true)
	ext["(*sync.RWMutex).Lock"] = lock(true)
	ext["(*sync.RWMutex).Unlock"] = unlock(true)
	ext["(*sync.RWMutex).RLock"] = lock(false)
	ext["(*sync.RWMutex).RUnlock"] = unlock(false)

	_ = os.Getenv
}

type mutexState struct {
	writer  bool
	readers int
}

func isMonotonicFree(wall value) bool {
	switch w := wall.(type) {
	case uint64:
		return w>>63 == 0
	case *Term:
		return w.hi != nil && w.hi.Cmp(pow2(63)) < 0 && w.lo != nil && w.lo.Sign() >= 0
	}
	return false
}

func zeroTime() structure { return structure{uint64(0), int64(0), (*value)(nil)} }

func timeToValue(t time.Time) structure {
	t = t.UTC()
	return structure{uint64(t.Nanosecond()), t.Unix() + unixToInternal, (*value)(nil)}
}

func valueToTime(t structure) time.Time {
	wall := t[0].(uint64)
	ext := t[1].(int64)
	if wall>>63 != 0 {
		abort("concrete time with monotonic reading")
	}
	return time.Unix(ext-unixToInternal, int64(wall&(1<<30-1))).UTC()
}

func indexByte(fr *frame, s []value, c value) value {
	for i, b := range s {
		if fr.decide(byteEq(b, c)) {
			return i
		}
	}
	return -1
}

func lastIndexByte(fr *frame, s []value, c value) value {
	for i := len(s) - 1; i >= 0; i-- {
		if fr.decide(byteEq(s[i], c)) {
			return i
		}
	}
	return -1
}

func indexString(fr *frame, s, sep []value) value {
	n := len(sep)
	for i := 0; i+n <= len(s); i++ {
		eq := tTrue
		for k := 0; k < n; k++ {
			eq = mkAnd(eq, byteEq(s[i+k], sep[k]))
		}
		if fr.decide(eq) {
			return i
		}
	}
	return -1
}

// ---- errors and formatting -------------------------------------------------

// nativeErr converts a native error into an interpreter error value (*errors.errorString).
func (i *interpreter) nativeErr(err error) value {
	if err == nil {
		return iface{}
	}
	return i.newError(err.Error())
}

func (i *interpreter) newError(msg string) value {
	pkg := i.prog.ImportedPackage("errors")
	if pkg == nil {
		abort("errors package not loaded")
	}
	t := pkg.Type("errorString").Object().Type()
	var cell value = structure{msg}
	return iface{t: types.NewPointer(t), v: &cell}
}

func (i *interpreter) sprintf(format value, args []value) value {
	f, ok := format.(string)
	if !ok {
		return "<formatted>"
	}
	var sb strings.Builder
	sb.WriteString(f)
	for _, a := range args {
		sb.WriteString("|")
		if it, ok := a.(iface); ok {
			a = it.v
		}
		switch v := a.(type) {
		case string:
			sb.WriteString(v)
		case int, int64, uint64, int32, uint8, bool:
			fmt.Fprintf(&sb, "%v", v)
		default:
			sb.WriteString("?")
		}
	}
	return sb.String()
}

// errorf builds a *fmt.wrapError when the format contains %w (so errors.Is works on
// the interpreted Unwrap method), else a plain error.
func (i *interpreter) errorf(format value, args []value) value {
	msg, _ := i.sprintf(format, args).(string)
	f, _ := format.(string)
	if strings.Contains(f, "%w") {
		for _, a := range args {
			it, ok := a.(iface)
			if !ok || it.t == nil {
				continue
			}
			if types.Implements(it.t, errorInterface()) {
				pkg := i.prog.ImportedPackage("fmt")
				if pkg != nil {
					if wt := pkg.Type("wrapError"); wt != nil {
						var cell value = structure{msg, it}
						return iface{t: types.NewPointer(wt.Object().Type()), v: &cell}
					}
				}
			}
		}
	}
	return i.newError(msg)
}

func errorInterface() *types.Interface {
	return types.Universe.Lookup("error").Type().Underlying().(*types.Interface)
}

func (i *interpreter) errorsIs(fr *frame, err, target iface, depth int) value {
	if depth > 50 {
		abort("errors.Is: chain too deep")
	}
	if err.t == nil || target.t == nil {
		return err.t == nil && target.t == nil
	}
	if sameType(err.t, target.t) {
		if comparableType(err.t) {
			if eq, ok := equalsV(err.t, err.v, target.v).(bool); ok && eq {
				return true
			}
		}
	}
	ms := i.prog.MethodSets.MethodSet(err.t)
	if sel := ms.Lookup(nil, "Is"); sel != nil {
		if f := i.prog.MethodValue(sel); f != nil {
			if r, ok := call(i, fr, fr.pos, f, []value{err.v, target}).(bool); ok && r {
				return true
			}
		}
	}
	// Unwrap may be unexported-package independent: look up by name across packages
	for k := 0; k < ms.Len(); k++ {
		sel := ms.At(k)
		if sel.Obj().Name() != "Unwrap" {
			continue
		}
		f := i.prog.MethodValue(sel)
		if f == nil {
			continue
		}
		r := call(i, fr, fr.pos, f, []value{err.v})
		switch r := r.(type) {
		case iface:
			if r.t == nil {
				return false
			}
			return i.errorsIs(fr, r, target, depth+1)
		case []value:
			for _, e := range r {
				if e.(iface).t == nil {
					continue
				}
				if b, ok := i.errorsIs(fr, e.(iface), target, depth+1).(bool); ok && b {
					return true
				}
			}
			return false
		}
	}
	return false
}

func comparableType(t types.Type) bool { return types.Comparable(t) }

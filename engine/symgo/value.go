// Copyright 2013 The Go Authors. All rights reserved.
// Use of this source code is governed by a BSD-style
// license that can be found in the LICENSE file.

package symgo

// Values
//
// All interpreter values are "boxed" in the empty interface, value.
// The range of possible dynamic types within value are:
//
// - bool
// - numbers (all built-in int/float/complex types are distinguished)
// - string
// - map[value]value --- maps for which  usesBuiltinMap(keyType)
//   *hashmap        --- maps for which !usesBuiltinMap(keyType)
// - chan value
// - []value --- slices
// - iface --- interfaces.
// - structure --- structs.  Fields are ordered and accessed by numeric indices.
// - array --- arrays.
// - *value --- pointers.  Careful: *value is a distinct type from *array etc.
// - *ssa.Function \
//   *ssa.Builtin   } --- functions.  A nil 'func' is always of type *ssa.Function.
//   *closure      /
// - tuple --- as returned by Return, Next, "value,ok" modes, etc.
// - iter --- iterators from 'range' over map or string.
// - bad --- a poison pill for locals that have gone out of scope.
// - rtype -- the interpreter's concrete implementation of reflect.Type
// - **deferred -- the address of a frame's defer stack for a Defer._Stack.
//
// Note that nil is not on this list.
//
// Pay close attention to whether or not the dynamic type is a pointer.
// The compiler cannot help you since value is an empty interface.

import (
	"bytes"
	"fmt"
	"go/types"

	"golang.org/x/tools/go/ssa"
)
type value interface{}

type tuple []value

type array []value

type iface struct {
	t types.Type // never an "untyped" type
	v value
}

type structure []value

// For map, array, *array, slice, string or channel.
type iter interface {
	// next returns a Tuple (key, value, ok).
	// key and value are unaliased, e.g. copies of the sequence element.
	next() tuple
}

type closure struct {
	Fn  *ssa.Function
	Env []value
}

type bad struct{}

func (x array) eq(t types.Type, _y interface{}) bool {
	y := _y.(array)
	tElt := t.Underlying().(*types.Array).Elem()
	for i, xi := range x {
		if !equals(tElt, xi, y[i]) {
			return false
		}
	}
	return true
}


func (x structure) eq(t types.Type, _y interface{}) bool {
	y := _y.(structure)
	tStruct := t.Underlying().(*types.Struct)
	for i, n := 0, tStruct.NumFields(); i < n; i++ {
		if f := tStruct.Field(i); !f.Anonymous() {
			if !equals(f.Type(), x[i], y[i]) {
				return false
			}
		}
	}
	return true
}


// nil-tolerant variant of types.Identical.
func sameType(x, y types.Type) bool {
	if x == nil {
		return y == nil
	}
	return y != nil && types.Identical(x, y)
}

func (x iface) eq(t types.Type, _y interface{}) bool {
	y := _y.(iface)
	return sameType(x.t, y.t) && (x.t == nil || equals(x.t, x.v, y.v))
}




// equals returns true iff x and y are equal according to Go's
// linguistic equivalence relation for type t.
// In a well-typed program, the dynamic types of x and y are
// guaranteed equal.
func equals(t types.Type, x, y value) bool {
	switch x := x.(type) {
	case bool:
		return x == y.(bool)
	case int:
		return x == y.(int)
	case int8:
		return x == y.(int8)
	case int16:
		return x == y.(int16)
	case int32:
		return x == y.(int32)
	case int64:
		return x == y.(int64)
	case uint:
		return x == y.(uint)
	case uint8:
		return x == y.(uint8)
	case uint16:
		return x == y.(uint16)
	case uint32:
		return x == y.(uint32)
	case uint64:
		return x == y.(uint64)
	case uintptr:
		return x == y.(uintptr)
	case float32:
		return x == y.(float32)
	case float64:
		return x == y.(float64)
	case complex64:
		return x == y.(complex64)
	case complex128:
		return x == y.(complex128)
	case string:
		return x == y.(string)
	case *value:
		return x == y.(*value)
	case *gochan:
		return x == y.(*gochan)
	case structure:
		return x.eq(t, y)
	case array:
		return x.eq(t, y)
	case iface:
		return x.eq(t, y)
	}

	// Since map, func and slice don't support comparison, this
	// case is only reachable if one of x or y is literally nil
	// (handled in eqnil) or via interface{} values.
	panic(fmt.Sprintf("comparing uncomparable type %s", t))
}

// reflect.Value struct values don't have a fixed shape, since the
// payload can be a scalar or an aggregate depending on the instance.
// So store (and load) can't simply use recursion over the shape of the
// rhs value, or the lhs, to copy the value; we need the static type
// information.  (We can't make reflect.Value a new basic data type
// because its "structness" is exposed to Go programs.)

// load returns the value of type T in *addr.
func load(T types.Type, addr *value) value {
	switch T := T.Underlying().(type) {
	case *types.Struct:
		v := (*addr).(structure)
		a := make(structure, len(v))
		for i := range a {
			a[i] = load(T.Field(i).Type(), &v[i])
		}
		return a
	case *types.Array:
		v := (*addr).(array)
		a := make(array, len(v))
		for i := range a {
			a[i] = load(T.Elem(), &v[i])
		}
		return a
	default:
		return *addr
	}
}

// store stores value v of type T into *addr.
func store(T types.Type, addr *value, v value) {
	switch T := T.Underlying().(type) {
	case *types.Struct:
		lhs := (*addr).(structure)
		rhs := v.(structure)
		for i := range lhs {
			store(T.Field(i).Type(), &lhs[i], rhs[i])
		}
	case *types.Array:
		lhs := (*addr).(array)
		rhs := v.(array)
		for i := range lhs {
			store(T.Elem(), &lhs[i], rhs[i])
		}
	default:
		*addr = v
	}
}

// Prints in the style of built-in println.
// (More or less; in gc println is actually a compiler intrinsic and
// can distinguish println(1) from println(interface{}(1)).)
func writeValue(buf *bytes.Buffer, v value) {
	switch v := v.(type) {
	case nil, bool, int, int8, int16, int32, int64, uint, uint8, uint16, uint32, uint64, uintptr, float32, float64, complex64, complex128, string:
		fmt.Fprintf(buf, "%v", v)

	case *omap:
		buf.WriteString("map[")
		if v != nil {
			for i, e := range v.entries {
				if e.dead {
					continue
				}
				if i > 0 {
					buf.WriteString(" ")
				}
				writeValue(buf, e.key)
				buf.WriteString(":")
				writeValue(buf, e.val)
			}
		}
		buf.WriteString("]")

	case *Term:
		buf.WriteString(v.String())

	case sstr, sdate, snum, shash:
		buf.WriteString(describeString(v))

	case *gochan:
		fmt.Fprintf(buf, "%p", v)

	case *value:
		if v == nil {
			buf.WriteString("<nil>")
		} else {
			fmt.Fprintf(buf, "%p", v)
		}

	case iface:
		fmt.Fprintf(buf, "(%s, ", v.t)
		writeValue(buf, v.v)
		buf.WriteString(")")

	case structure:
		buf.WriteString("{")
		for i, e := range v {
			if i > 0 {
				buf.WriteString(" ")
			}
			writeValue(buf, e)
		}
		buf.WriteString("}")

	case array:
		buf.WriteString("[")
		for i, e := range v {
			if i > 0 {
				buf.WriteString(" ")
			}
			writeValue(buf, e)
		}
		buf.WriteString("]")

	case []value:
		buf.WriteString("[")
		for i, e := range v {
			if i > 0 {
				buf.WriteString(" ")
			}
			writeValue(buf, e)
		}
		buf.WriteString("]")

	case *ssa.Function, *ssa.Builtin, *closure:
		fmt.Fprintf(buf, "%p", v) // (an address)

	case tuple:
		// Unreachable in well-formed Go programs
		buf.WriteString("(")
		for i, e := range v {
			if i > 0 {
				buf.WriteString(", ")
			}
			writeValue(buf, e)
		}
		buf.WriteString(")")

	default:
		fmt.Fprintf(buf, "<%T>", v)
	}
}

// Implements printing of Go values in the style of built-in println.
func toString(v value) string {
	var b bytes.Buffer
	writeValue(&b, v)
	return b.String()
}


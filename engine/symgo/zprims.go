package symgo

// Engine side of the exact-integer oracle primitives (vxZ*): a vxZ value is the
// one-field struct {b *big.Int}; under symgo the field holds an unwrapped Int term.

import (
	"go/types"
	"math/big"
)

func zTerm(v value) *Term {
	s := v.(structure)
	switch x := s[0].(type) {
	case *Term:
		return x
	}
	abort("vxZ value not produced by a vxZ primitive")
	return nil
}
func zVal(t *Term) value { return structure{t} }
func bTerm(v value) *Term { return toTerm(v) }
func bVal(t *Term) value  { return simplifyBool(t) }

func init() {
	reg := func(name string, f func(fr *frame, a []value) value) {
		vxPrimsExtra[name] = func(fr *frame, a []value) (value, bool) { return f(fr, a), true }
	}
	reg("vxZOf", func(fr *frame, a []value) value { return zVal(toTerm(a[0])) })
	reg("vxZAdd", func(fr *frame, a []value) value { return zVal(mkAdd(zTerm(a[0]), zTerm(a[1]))) })
	reg("vxZSub", func(fr *frame, a []value) value { return zVal(mkSub(zTerm(a[0]), zTerm(a[1]))) })
	reg("vxZMulK", func(fr *frame, a []value) value { return zVal(mkMulC(zTerm(a[0]), bigOf(a[1]))) })
	reg("vxZDivK", func(fr *frame, a []value) value { return zVal(mkDiv(zTerm(a[0]), bigOf(a[1]))) })
	reg("vxZLess", func(fr *frame, a []value) value { return bVal(mkLt(zTerm(a[0]), zTerm(a[1]))) })
	reg("vxZLeq", func(fr *frame, a []value) value { return bVal(mkLe(zTerm(a[0]), zTerm(a[1]))) })
	reg("vxZEq", func(fr *frame, a []value) value { return bVal(mkEq(zTerm(a[0]), zTerm(a[1]))) })
	reg("vxZMin", func(fr *frame, a []value) value { return zVal(mkMin(zTerm(a[0]), zTerm(a[1]))) })
	reg("vxZMax", func(fr *frame, a []value) value { return zVal(mkMax(zTerm(a[0]), zTerm(a[1]))) })
	reg("vxZIte", func(fr *frame, a []value) value { return zVal(mkIte(bTerm(a[0]), zTerm(a[1]), zTerm(a[2]))) })
	reg("vxZTime", func(fr *frame, a []value) value {
		t := a[0].(structure)
		if !isMonotonicFree(t[0]) {
			abort("vxZTime of a time with monotonic reading")
		}
		sec := mkAdd(toTerm(t[1]), mkConstI(-unixToInternal))
		nsec := toTerm(t[0])
		if nsec.hi == nil || nsec.hi.Cmp(pow2(30)) >= 0 {
			nsec = mkMod(nsec, pow2(30))
		}
		return zVal(mkAdd(mkMulC(sec, bi(1_000_000_000)), nsec))
	})
	reg("vxZDigits", func(fr *frame, a []value) value {
		if s, ok := a[0].(string); ok {
			if s == "" {
				return tuple{zVal(mkConstI(0)), false}
			}
			for i := 0; i < len(s); i++ {
				if s[i] < '0' || s[i] > '9' {
					return tuple{zVal(mkConstI(0)), false}
				}
			}
			n, _ := new(big.Int).SetString(s, 10)
			return tuple{zVal(mkConst(n)), true}
		}
		bs := strBytes(a[0])
		if len(bs) == 0 {
			return tuple{zVal(mkConstI(0)), false}
		}
		ok := tTrue
		val := mkConstI(0)
		for _, b := range bs {
			t := toTerm(b)
			ok = mkAnd(ok, mkAnd(mkLe(mkConstI('0'), t), mkLe(t, mkConstI('9'))))
			val = mkAdd(mkMulC(val, bi(10)), mkSub(t, mkConstI('0')))
		}
		return tuple{zVal(val), bVal(ok)}
	})
	reg("vxZClampInt64", func(fr *frame, a []value) value {
		lo, size := typeRange(types.Typ[types.Int64])
		hi := new(big.Int).Sub(new(big.Int).Add(lo, size), bigOne)
		return concretize(types.Typ[types.Int64], mkMin(mkMax(zTerm(a[0]), mkConst(lo)), mkConst(hi)))
	})
	reg("vxZCmp", func(fr *frame, a []value) value {
		x, y := zTerm(a[0]), zTerm(a[1])
		return concretize(types.Typ[types.Int], mkIte(mkLt(x, y), mkConstI(-1), mkIte(mkEq(x, y), mkConstI(0), mkConstI(1))))
	})
	reg("vxImplies", func(fr *frame, a []value) value { return bVal(mkImplies(bTerm(a[0]), bTerm(a[1]))) })
	reg("vxAnd", func(fr *frame, a []value) value { return bVal(mkAnd(bTerm(a[0]), bTerm(a[1]))) })
	reg("vxOr", func(fr *frame, a []value) value { return bVal(mkOr(bTerm(a[0]), bTerm(a[1]))) })
}

var vxPrimsExtra = map[string]externalFn{}

package symgo

// Parser for known-finding predicates: a small SMT-LIB subset over harness
// variable names (and or not => = < <= > >= + - * ite, integer literals, true/false).
// Variables ending in "?" are booleans; all others are integers.

import (
	"fmt"
	"math/big"
	"strings"
)

func ParsePredicate(s string) (*Term, error) {
	toks := tokenize(s)
	pos := 0
	var parse func() (*Term, error)
	parse = func() (*Term, error) {
		if pos >= len(toks) {
			return nil, fmt.Errorf("unexpected end")
		}
		t := toks[pos]
		pos++
		if t != "(" {
			if t == "true" {
				return tTrue, nil
			}
			if t == "false" {
				return tFalse, nil
			}
			if n, ok := new(big.Int).SetString(t, 10); ok {
				return mkConst(n), nil
			}
			if t == ")" {
				return nil, fmt.Errorf("unexpected )")
			}
			isBool := strings.HasPrefix(t, "b:")
			name := strings.TrimPrefix(t, "b:")
			return mkVar(name, isBool, nil, nil), nil
		}
		if pos >= len(toks) {
			return nil, fmt.Errorf("unexpected end after (")
		}
		op := toks[pos]
		pos++
		var args []*Term
		for pos < len(toks) && toks[pos] != ")" {
			a, err := parse()
			if err != nil {
				return nil, err
			}
			args = append(args, a)
		}
		if pos >= len(toks) {
			return nil, fmt.Errorf("missing )")
		}
		pos++
		need := func(n int) error {
			if len(args) != n {
				return fmt.Errorf("%s expects %d arguments", op, n)
			}
			return nil
		}
		switch op {
		case "and":
			return mkAndN(args...), nil
		case "or":
			r := tFalse
			for _, a := range args {
				r = mkOr(r, a)
			}
			return r, nil
		case "not":
			if err := need(1); err != nil {
				return nil, err
			}
			return mkNot(args[0]), nil
		case "=>":
			if err := need(2); err != nil {
				return nil, err
			}
			return mkImplies(args[0], args[1]), nil
		case "=", "<", "<=", ">", ">=":
			if err := need(2); err != nil {
				return nil, err
			}
			switch op {
			case "=":
				return mkEq(args[0], args[1]), nil
			case "<":
				return mkLt(args[0], args[1]), nil
			case "<=":
				return mkLe(args[0], args[1]), nil
			case ">":
				return mkLt(args[1], args[0]), nil
			default:
				return mkLe(args[1], args[0]), nil
			}
		case "+":
			r := mkConstI(0)
			for _, a := range args {
				r = mkAdd(r, a)
			}
			return r, nil
		case "-":
			if len(args) == 1 {
				return mkNeg(args[0]), nil
			}
			if err := need(2); err != nil {
				return nil, err
			}
			return mkSub(args[0], args[1]), nil
		case "*":
			if err := need(2); err != nil {
				return nil, err
			}
			return mkMul(args[0], args[1]), nil
		case "ite":
			if err := need(3); err != nil {
				return nil, err
			}
			return mkIte(args[0], args[1], args[2]), nil
		}
		return nil, fmt.Errorf("unknown operator %q", op)
	}
	if strings.TrimSpace(s) == "" {
		return tTrue, nil
	}
	t, err := parse()
	if err != nil {
		return nil, err
	}
	if pos != len(toks) {
		return nil, fmt.Errorf("trailing tokens")
	}
	if !t.isBool {
		return nil, fmt.Errorf("predicate is not boolean")
	}
	return t, nil
}

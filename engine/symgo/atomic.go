package symgo

// sync/atomic under the cooperative scheduler: goroutines switch only at blocking
// points, so plain loads and stores are atomic.

import (
	"go/token"
	"go/types"
	"strings"
	"unsafe"
)

func init() {
	for _, ty := range []string{"Int32", "Int64", "Uint32", "Uint64", "Uintptr", "Pointer"} {
		ty := ty
		externals["sync/atomic.Load"+ty] = func(fr *frame, a []value) (value, bool) {
			p := a[0].(*value)
			if p == nil {
				panic(nilDeref())
			}
			return *p, true
		}
		externals["sync/atomic.Store"+ty] = func(fr *frame, a []value) (value, bool) {
			p := a[0].(*value)
			if p == nil {
				panic(nilDeref())
			}
			*p = a[1]
			return nil, true
		}
		externals["sync/atomic.Swap"+ty] = func(fr *frame, a []value) (value, bool) {
			p := a[0].(*value)
			old := *p
			*p = a[1]
			return old, true
		}
		externals["sync/atomic.CompareAndSwap"+ty] = func(fr *frame, a []value) (value, bool) {
			p := a[0].(*value)
			eq := false
			switch o := a[1].(type) {
			case unsafe.Pointer:
				cur, _ := (*p).(unsafe.Pointer)
				eq = cur == o
			default:
				t := fr.fn.Signature.Params().At(1).Type()
				switch e := equalsV(t, *p, a[1]).(type) {
				case bool:
					eq = e
				case *Term:
					eq = fr.decide(e)
				}
			}
			if eq {
				*p = a[2]
			}
			return eq, true
		}
		if ty != "Pointer" {
			externals["sync/atomic.Add"+ty] = func(fr *frame, a []value) (value, bool) {
				p := a[0].(*value)
				t := fr.fn.Signature.Params().At(1).Type()
				*p = binop(token.ADD, t, *p, a[1])
				return *p, true
			}
		}
	}
	externals["sync/atomic.runtime_procPin"] = func(fr *frame, a []value) (value, bool) { return 0, true }
	externals["sync/atomic.runtime_procUnpin"] = func(fr *frame, a []value) (value, bool) { return nil, true }
	_ = strings.HasPrefix
	_ = types.Typ
}

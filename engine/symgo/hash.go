package symgo

// hashVal models hash/fnv Sum64 as an injective function of the byte stream written
// (collision-freeness of FNV-64a on distinct streams is an assumption, DESIGN.md §5).
type hashVal struct{ stream []value }

type shash struct{ stream []value } // decimal rendering of a hashVal

func (h hashVal) asString() value {
	if s, ok := mkSstr(h.stream).(string); ok {
		return "h" + s // unreachable for concrete streams (real FNV runs), kept for safety
	}
	return shash{h.stream}
}

package symgo

// hashVal models hash/fnv Sum64 as an injective function of the byte stream written
// (collision-freeness of FNV-64a on distinct streams is an assumption, DESIGN.md §5).
// On fully concrete streams the real FNV-64a value is computed instead.

import (
	"hash/fnv"
)

type hashVal struct{ stream []value }

// shash is a string made of a string-like prefix followed by the decimal rendering of
// a symbolic-stream hash (e.g. "<urlKey>#<hash>").  Only concatenation on the left and
// equality are supported.
type shash struct {
	prefix value
	stream []value
}

func (h hashVal) asString() value { return shash{prefix: "", stream: h.stream} }

func streamEq(a, b []value) *Term {
	if len(a) != len(b) {
		return tFalse
	}
	r := tTrue
	for i := range a {
		r = mkAnd(r, byteEq(a[i], b[i]))
	}
	return r
}

func init() {
	externals["(*hash/fnv.sum64a).Write"] = func(fr *frame, a []value) (value, bool) {
		cell := a[0].(*value)
		data := a[1].([]value)
		fr.i.fnvStreams[cell] = append(fr.i.fnvStreams[cell], data...)
		return tuple{len(data), iface{}}, true
	}
	externals["(*hash/fnv.sum64a).Sum64"] = func(fr *frame, a []value) (value, bool) {
		cell := a[0].(*value)
		st := fr.i.fnvStreams[cell]
		conc := make([]byte, 0, len(st))
		for _, b := range st {
			c, ok := b.(uint8)
			if !ok {
				return hashVal{append([]value(nil), st...)}, true
			}
			conc = append(conc, c)
		}
		h := fnv.New64a()
		h.Write(conc)
		return h.Sum64(), true
	}
}

package symgo

// One long-lived SMT solver process per worker, SMT-LIB2 over a pipe.
// Protocol rules (DESIGN.md §2.7): every identifier is prefixed, every query is
// followed by an (echo) marker, any "(error" line makes the answer inconclusive,
// a per-query timeout is always set.

import (
	"bufio"
	"fmt"
	"io"
	"math/big"
	"os"
	"os/exec"
	"strings"
	"sync"
	"sync/atomic"
	"time"
)

type SolverKind int

const (
	SolverZ3New SolverKind = iota
	SolverZ3Old
	SolverCVC5
)

func (k SolverKind) String() string {
	return [...]string{"z3-5.1.0", "z3-4.8.12", "cvc5-1.0"}[k]
}

type solver struct {
	kind    SolverKind
	cmd     *exec.Cmd
	in      io.WriteCloser
	out     *bufio.Reader
	seq     int
	timeout time.Duration

	// session state
	log     []string          // every line sent since last reset (for one-shot retry)
	emitted map[uint64]bool   // term ids defined in this session
	decl    map[string]bool   // declared symbols

	// stats
	Queries, Sat, Unsat, Unknown int
	CacheHits                    int
	AltUsed, BVUsed, Retried     int
	alt                          *solver
	Time                         time.Duration
}

func newSolver(kind SolverKind, timeout time.Duration) (*solver, error) {
	var cmd *exec.Cmd
	ms := int(timeout / time.Millisecond)
	switch kind {
	case SolverZ3New:
		cmd = exec.Command("z3-new", "-in", fmt.Sprintf("-t:%d", ms))
	case SolverZ3Old:
		cmd = exec.Command("z3", "-in", fmt.Sprintf("-t:%d", ms))
	case SolverCVC5:
		return &solver{kind: kind, timeout: timeout}, nil // one process per query (runCVC5OneShot)
	}
	in, err := cmd.StdinPipe()
	if err != nil {
		return nil, err
	}
	out, err := cmd.StdoutPipe()
	if err != nil {
		return nil, err
	}
	cmd.Stderr = cmd.Stdout
	if err := cmd.Start(); err != nil {
		return nil, err
	}
	s := &solver{kind: kind, cmd: cmd, in: in, out: bufio.NewReaderSize(out, 1<<16), timeout: timeout}
	s.reset()
	return s, nil
}

func (s *solver) close() {
	if s == nil {
		return
	}
	s.alt.close()
	if s.cmd == nil {
		return
	}
	s.in.Close()
	s.cmd.Process.Kill()
	s.cmd.Wait()
	s.cmd = nil
}

func (s *solver) send(line string) {
	s.log = append(s.log, line)
	io.WriteString(s.in, line)
	io.WriteString(s.in, "\n")
}

func (s *solver) reset() {
	s.log = s.log[:0]
	s.emitted = map[uint64]bool{}
	s.decl = map[string]bool{}
	if s.in != nil {
		io.WriteString(s.in, "(reset)\n")
	}
}

// define makes sure all sub-terms of t are defined in the session.
func (s *solver) define(t *Term) {
	if t.op == OpConst {
		return
	}
	if t.op == OpVar {
		n := smtName(t.name)
		if !s.decl[n] {
			s.decl[n] = true
			sort := "Int"
			if t.isBool {
				sort = "Bool"
			}
			s.send(fmt.Sprintf("(declare-const %s %s)", n, sort))
		}
		return
	}
	if s.emitted[t.id] {
		return
	}
	// iterative post-order to avoid deep recursion
	type fr struct {
		t *Term
		i int
	}
	stack := []fr{{t, 0}}
	for len(stack) > 0 {
		top := &stack[len(stack)-1]
		if top.i < len(top.t.args) {
			a := top.t.args[top.i]
			top.i++
			if a.op == OpConst {
				continue
			}
			if a.op == OpVar {
				s.define(a)
				continue
			}
			if !s.emitted[a.id] {
				stack = append(stack, fr{a, 0})
			}
			continue
		}
		n := top.t
		stack = stack[:len(stack)-1]
		if s.emitted[n.id] {
			continue
		}
		s.emitted[n.id] = true
		if n.op == OpUF {
			fn := smtName(n.name)
			key := fmt.Sprintf("%s/%d", fn, len(n.args))
			if !s.decl[key] {
				s.decl[key] = true
				s.send(fmt.Sprintf("(declare-fun %s (%s) Int)", fn, strings.TrimSpace(strings.Repeat("Int ", len(n.args)))))
			}
		}
		sort := "Int"
		if n.isBool {
			sort = "Bool"
		}
		s.send(fmt.Sprintf("(define-fun %s () %s %s)", n.ref(), sort, n.body()))
	}
}

func (s *solver) assert(t *Term) {
	s.define(t)
	s.send("(assert " + t.ref() + ")")
}

type checkResult int

const (
	resUnsat checkResult = iota
	resSat
	resUnknown
)

func (r checkResult) String() string { return [...]string{"unsat", "sat", "unknown"}[r] }

// check asks whether the asserted path condition together with extra is
// satisfiable; on sat it returns values for the given variables.  Only the
// constraints that (transitively) share variables with extra are sent
// (constraint independence); the query is one-shot after (reset), which lets the
// solver use its full preprocessing pipeline.
func (s *solver) check(extra []*Term, vars []*Term) (checkResult, Model) {
	panic("use checkSliced")
}

func termVars(t *Term, seen map[*Term]bool, out map[string]*Term) {
	if seen[t] {
		return
	}
	seen[t] = true
	if t.op == OpVar {
		out[t.name] = t
		return
	}
	if t.op == OpUF {
		out["uf:"+t.name] = t
	}
	for _, a := range t.args {
		termVars(a, seen, out)
	}
}

type cacheEntry struct {
	res   checkResult
	model Model
}

var queryCache sync.Map

var CacheHitsTotal int64

// queryBuilder renders terms with query-local numbering.
type queryBuilder struct {
	sb   strings.Builder
	ids  map[*Term]int
	byH  map[[2]uint64]int // structural sharing: identical sub-terms are emitted once
	decl map[string]bool
	n    int
}

func newQueryBuilder() *queryBuilder {
	return &queryBuilder{ids: map[*Term]int{}, byH: map[[2]uint64]int{}, decl: map[string]bool{}}
}

func (q *queryBuilder) declare(v *Term) {
	n := smtName(v.name)
	if q.decl[n] {
		return
	}
	q.decl[n] = true
	sort := "Int"
	if v.isBool {
		sort = "Bool"
	}
	fmt.Fprintf(&q.sb, "(declare-const %s %s)\n", n, sort)
}

func (q *queryBuilder) ref(t *Term) string {
	switch t.op {
	case OpConst, OpVar:
		return t.ref()
	}
	return fmt.Sprintf("t%d", q.ids[t])
}

func (q *queryBuilder) define(t *Term) {
	if t.op == OpConst {
		return
	}
	if t.op == OpVar {
		q.declare(t)
		return
	}
	if _, ok := q.ids[t]; ok {
		return
	}
	type fr struct {
		t *Term
		i int
	}
	stack := []fr{{t, 0}}
	for len(stack) > 0 {
		top := &stack[len(stack)-1]
		if top.i < len(top.t.args) {
			a := top.t.args[top.i]
			top.i++
			switch a.op {
			case OpConst:
			case OpVar:
				q.declare(a)
			default:
				if _, ok := q.ids[a]; !ok {
					stack = append(stack, fr{a, 0})
				}
			}
			continue
		}
		n := top.t
		stack = stack[:len(stack)-1]
		if _, ok := q.ids[n]; ok {
			continue
		}
		h1, h2 := n.hash()
		if id, ok := q.byH[[2]uint64{h1, h2}]; ok {
			q.ids[n] = id
			continue
		}
		q.n++
		q.ids[n] = q.n
		q.byH[[2]uint64{h1, h2}] = q.n
		if n.op == OpUF {
			fn := smtName(n.name)
			key := fmt.Sprintf("%s/%d", fn, len(n.args))
			if !q.decl[key] {
				q.decl[key] = true
				fmt.Fprintf(&q.sb, "(declare-fun %s (%s) Int)\n", fn, strings.TrimSpace(strings.Repeat("Int ", len(n.args))))
			}
		}
		sort := "Int"
		if n.isBool {
			sort = "Bool"
		}
		fmt.Fprintf(&q.sb, "(define-fun t%d () %s %s)\n", q.ids[n], sort, n.bodyWith(q.ref))
	}
}

func (q *queryBuilder) assert(t *Term) {
	q.define(t)
	fmt.Fprintf(&q.sb, "(assert %s)\n", q.ref(t))
}

type pcEntry struct {
	c    *Term
	vars map[string]*Term
}

// checkSliced: pc are the path constraints with their variable sets.
func (s *solver) checkSliced(pc []pcEntry, extra []*Term) (checkResult, Model, map[string]*Term) {
	t0 := time.Now()
	defer func() { s.Time += time.Since(t0); s.Queries++ }()
	rel := map[string]*Term{}
	seen := map[*Term]bool{}
	for _, e := range extra {
		termVars(e, seen, rel)
	}
	used := make([]bool, len(pc))
	for changed := true; changed; {
		changed = false
		for i, p := range pc {
			if used[i] {
				continue
			}
			hit := false
			for v := range p.vars {
				if _, ok := rel[v]; ok {
					hit = true
					break
				}
			}
			if hit {
				used[i] = true
				changed = true
				for v, t := range p.vars {
					rel[v] = t
				}
			}
		}
	}
	// structural fingerprint of the sliced query: identical slices hit the cache
	// without rendering the script
	var k1, k2 uint64 = 17, 31
	for i, p := range pc {
		if used[i] {
			a, b := p.c.hash()
			k1, k2 = mix(k1, a), mix(k2, b)
		}
	}
	k1, k2 = mix(k1, 0xfeed), mix(k2, 0xbeef)
	for _, e := range extra {
		a, b := e.hash()
		k1, k2 = mix(k1, a), mix(k2, b)
	}
	key := [2]uint64{k1, k2}
	if c, ok := queryCache.Load(key); ok {
		ce := c.(cacheEntry)
		s.CacheHits++
		atomic.AddInt64(&CacheHitsTotal, 1)
		switch ce.res {
		case resSat:
			s.Sat++
		case resUnsat:
			s.Unsat++
		}
		return ce.res, ce.model, rel
	}
	// canonical script (local numbering)
	qb := newQueryBuilder()
	for i, p := range pc {
		if used[i] {
			qb.assert(p.c)
		}
	}
	for _, e := range extra {
		qb.assert(e)
	}
	var vars []*Term
	for _, k := range sortedKeys(rel) {
		if v := rel[k]; v.op == OpVar {
			qb.declare(v)
			vars = append(vars, v)
		}
	}
	script := qb.sb.String()
	tq := time.Now()
	var as []*Term
	for i, p := range pc {
		if used[i] {
			as = append(as, p.c)
		}
	}
	as = append(as, extra...)
	bs, bvars, bvOK, slicing := bvScript2(as)
	res, model := resUnknown, Model(nil)
	triedBV := false
	if bvOK && slicing >= 4 {
		// bit-slicing arithmetic over powers of two: the bit-vector encoding first
		res, model = runBV(bs, bvars, s.timeout)
		s.BVUsed++
		triedBV = true
	}
	if res == resUnknown {
		res, model = s.runScript(script, vars)
	}
	if res == resUnknown && s.alt != nil {
		// portfolio: the other solver often decides what the first one cannot
		res, model = s.alt.runScript(script, vars)
		s.AltUsed++
	}
	if res == resUnknown && bvOK && !triedBV {
		res, model = runBV(bs, bvars, s.timeout*4)
		s.BVUsed++
	}
	if res == resUnknown && s.alt != nil && s.alt.kind == SolverCVC5 {
		// last resort before the run is declared inconclusive: the one-shot solver once
		// more with three times the budget (a loaded machine must not turn a decidable
		// query into an inconclusive check)
		old := s.alt.timeout
		res, model = runZ3OneShot(script, vars, min(3*old, 180*time.Second))
		if res == resUnknown {
			s.alt.timeout = min(3*old, 180*time.Second)
			res, model = s.alt.runScript(script, vars)
			s.alt.timeout = old
		}
		s.Retried++
	}
	if res != resUnknown {
		queryCache.Store(key, cacheEntry{res, model})
	}
	if d := time.Since(tq); os.Getenv("VX_SLOW") != "" && d > 500*time.Millisecond {
		os.MkdirAll(os.Getenv("VX_SLOW"), 0o755)
		os.WriteFile(fmt.Sprintf("%s/slow-%d-%d-%s-%dms.smt2", os.Getenv("VX_SLOW"), os.Getpid(), s.seq, res, d.Milliseconds()), []byte(script+"(check-sat)\n"), 0o644)
	}
	if res == resUnknown && os.Getenv("VX_DUMP") != "" {
		os.MkdirAll(os.Getenv("VX_DUMP"), 0o755)
		os.WriteFile(fmt.Sprintf("%s/unknown-%d-%d.smt2", os.Getenv("VX_DUMP"), os.Getpid(), s.seq), []byte(script+"(check-sat)\n"), 0o644)
	}
	switch res {
	case resSat:
		s.Sat++
	case resUnsat:
		s.Unsat++
	default:
		s.Unknown++
	}
	return res, model, rel
}

func (s *solver) checkSatAndModel(vars []*Term) (checkResult, Model) {
	s.seq++
	marker := fmt.Sprintf("vxq%d", s.seq)
	io.WriteString(s.in, "(check-sat)\n(echo \""+marker+"\")\n")
	res := resUnknown
	bad := false
	for {
		line, err := s.out.ReadString('\n')
		if err != nil {
			return resUnknown, nil
		}
		line = strings.TrimSpace(strings.Trim(strings.TrimSpace(line), "\""))
		if line == marker {
			break
		}
		switch {
		case line == "sat":
			res = resSat
		case line == "unsat":
			res = resUnsat
		case line == "unknown" || strings.HasPrefix(line, "timeout"):
			res = resUnknown
		case strings.HasPrefix(line, "(error"):
			bad = true
		}
	}
	if bad {
		return resUnknown, nil
	}
	if res != resSat || len(vars) == 0 {
		return res, Model{}
	}
	// model
	var names []string
	for _, v := range vars {
		names = append(names, smtName(v.name))
	}
	s.seq++
	marker = fmt.Sprintf("vxq%d", s.seq)
	io.WriteString(s.in, "(get-value ("+strings.Join(names, " ")+"))\n(echo \""+marker+"\")\n")
	var sb strings.Builder
	for {
		line, err := s.out.ReadString('\n')
		if err != nil {
			return resUnknown, nil
		}
		tl := strings.TrimSpace(strings.Trim(strings.TrimSpace(line), "\""))
		if tl == marker {
			break
		}
		if strings.HasPrefix(tl, "(error") {
			bad = true
		}
		sb.WriteString(line)
	}
	if bad {
		return resUnknown, nil
	}
	m, ok := parseGetValue(sb.String(), vars)
	if !ok {
		return resUnknown, nil
	}
	return resSat, m
}

// oneShot re-runs the current session's assertions plus extra from scratch.
func (s *solver) oneShot(extra []*Term, vars []*Term) (checkResult, Model) {
	saved := append([]string(nil), s.log...)
	io.WriteString(s.in, "(reset)\n")
	if s.kind == SolverCVC5 {
		io.WriteString(s.in, "(set-logic ALL)\n")
	}
	for _, l := range saved {
		io.WriteString(s.in, l+"\n")
	}
	for _, e := range extra {
		io.WriteString(s.in, "(assert "+e.ref()+")\n")
	}
	res, m := s.checkSatAndModel(vars)
	// restore incremental session
	io.WriteString(s.in, "(reset)\n")
	if s.kind == SolverCVC5 {
		io.WriteString(s.in, "(set-logic ALL)\n")
	}
	for _, l := range saved {
		io.WriteString(s.in, l+"\n")
	}
	return res, m
}

func (s *solver) runScript(script string, vars []*Term) (checkResult, Model) {
	if s.kind == SolverCVC5 {
		return s.runCVC5OneShot(script, vars)
	}
	io.WriteString(s.in, "(reset)\n")
	if s.kind == SolverCVC5 {
		io.WriteString(s.in, "(set-option :produce-models true)\n(set-logic ALL)\n")
	}
	io.WriteString(s.in, script)
	return s.checkSatAndModel(vars)
}

// runCVC5OneShot starts a fresh, non-incremental cvc5 for one query: in incremental
// mode (and after (reset)) cvc5 1.0 loses the preprocessing that decides these wrap-LIA
// queries in well under a second (measured: 0.5 s one-shot vs unknown after 20 s).
func (s *solver) runCVC5OneShot(script string, vars []*Term) (checkResult, Model) {
	ms := int(s.timeout / time.Millisecond)
	return runOneShot(script, vars, "(set-option :produce-models true)\n(set-logic ALL)\n", "cvc5", "--lang=smt2", fmt.Sprintf("--tlimit=%d", ms))
}

// runZ3OneShot: a fresh z3 5.1.0 process for one query with its own time budget.
func runZ3OneShot(script string, vars []*Term, budget time.Duration) (checkResult, Model) {
	return runOneShot(script, vars, "", "z3-new", "-in", fmt.Sprintf("-T:%d", int(budget/time.Second)))
}

func runOneShot(script string, vars []*Term, header string, cmdName string, args ...string) (checkResult, Model) {
	var names []string
	for _, v := range vars {
		names = append(names, smtName(v.name))
	}
	var in strings.Builder
	in.WriteString(header)
	in.WriteString(script)
	in.WriteString("(check-sat)\n")
	run := func(withModel bool) (string, error) {
		full := in.String()
		if withModel && len(names) > 0 {
			full += "(get-value (" + strings.Join(names, " ") + "))\n"
		}
		cmd := exec.Command(cmdName, args...)
		cmd.Stdin = strings.NewReader(full)
		out, err := cmd.CombinedOutput()
		return string(out), err
	}
	out, _ := run(false)
	first := ""
	for _, l := range strings.Split(out, "\n") {
		l = strings.TrimSpace(l)
		if l == "sat" || l == "unsat" || l == "unknown" {
			first = l
			break
		}
		if strings.HasPrefix(l, "(error") {
			return resUnknown, nil
		}
	}
	switch first {
	case "unsat":
		return resUnsat, Model{}
	case "sat":
		if len(names) == 0 {
			return resSat, Model{}
		}
		out, _ = run(true)
		i := strings.Index(out, "sat")
		if i < 0 || strings.Contains(out, "(error") {
			return resUnknown, nil
		}
		m, ok := parseGetValue(out[i+3:], vars)
		if !ok {
			return resUnknown, nil
		}
		return resSat, m
	}
	return resUnknown, nil
}

// parseGetValue parses "((v_a 1) (v_b (- 2)) (v_c true))".
func parseGetValue(s string, vars []*Term) (Model, bool) {
	toks := tokenize(s)
	m := Model{}
	pos := 0
	next := func() string {
		if pos < len(toks) {
			pos++
			return toks[pos-1]
		}
		return ""
	}
	if next() != "(" {
		return nil, false
	}
	byName := map[string]*Term{}
	for _, v := range vars {
		byName[smtName(v.name)] = v
	}
	for pos < len(toks) {
		t := next()
		if t == ")" {
			break
		}
		if t != "(" {
			return nil, false
		}
		name := next()
		var val *big.Int
		t = next()
		switch t {
		case "true":
			val = bigOne
		case "false":
			val = bigZero
		case "(":
			if next() != "-" {
				return nil, false
			}
			n, ok := new(big.Int).SetString(next(), 10)
			if !ok {
				return nil, false
			}
			val = n.Neg(n)
			if next() != ")" {
				return nil, false
			}
		default:
			n, ok := new(big.Int).SetString(t, 10)
			if !ok {
				return nil, false
			}
			val = n
		}
		if next() != ")" {
			return nil, false
		}
		if v, ok := byName[name]; ok {
			m[v.name] = val
		}
	}
	return m, true
}

func tokenize(s string) []string {
	var toks []string
	i := 0
	for i < len(s) {
		c := s[i]
		switch {
		case c == '(' || c == ')':
			toks = append(toks, string(c))
			i++
		case c == ' ' || c == '\n' || c == '\t' || c == '\r':
			i++
		default:
			j := i
			for j < len(s) && !strings.ContainsRune("() \n\t\r", rune(s[j])) {
				j++
			}
			toks = append(toks, s[i:j])
			i = j
		}
	}
	return toks
}

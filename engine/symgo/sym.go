package symgo

// Symbolic scalar operations: machine integers as mathematical integers with
// explicit wrap, booleans as SMT Bool.  A symbolic scalar value is a *Term.

import (
	"fmt"
	"go/token"
	"go/types"
	"math/big"
)

func isSym(v value) bool { _, ok := v.(*Term); return ok }

func isScalar(v value) bool {
	switch v.(type) {
	case bool, int, int8, int16, int32, int64, uint, uint8, uint16, uint32, uint64, uintptr, *Term:
		return true
	}
	return false
}

func bigOf(v value) *big.Int {
	switch x := v.(type) {
	case int:
		return bi(int64(x))
	case int8:
		return bi(int64(x))
	case int16:
		return bi(int64(x))
	case int32:
		return bi(int64(x))
	case int64:
		return bi(x)
	case uint:
		return bu(uint64(x))
	case uint8:
		return bu(uint64(x))
	case uint16:
		return bu(uint64(x))
	case uint32:
		return bu(uint64(x))
	case uint64:
		return bu(x)
	case uintptr:
		return bu(uint64(x))
	}
	panic(fmt.Sprintf("bigOf: %T", v))
}

func toTerm(v value) *Term {
	switch x := v.(type) {
	case *Term:
		return x
	case bool:
		return mkBool(x)
	}
	return mkConst(bigOf(v))
}

// intInfo describes an integer type.
func intInfo(t types.Type) (bits uint, signed bool, ok bool) {
	b, isb := t.Underlying().(*types.Basic)
	if !isb || b.Info()&types.IsInteger == 0 {
		return 0, false, false
	}
	switch b.Kind() {
	case types.Int8:
		return 8, true, true
	case types.Uint8:
		return 8, false, true
	case types.Int16:
		return 16, true, true
	case types.Uint16:
		return 16, false, true
	case types.Int32, types.UntypedRune:
		return 32, true, true
	case types.Uint32:
		return 32, false, true
	case types.Int, types.Int64, types.UntypedInt:
		return 64, true, true
	default: // uint, uint64, uintptr
		return 64, false, true
	}
}

func typeRange(t types.Type) (lo, size *big.Int) {
	bits, signed, ok := intInfo(t)
	if !ok {
		panic("typeRange: not an integer type: " + t.String())
	}
	size = pow2(bits)
	if signed {
		return new(big.Int).Neg(pow2(bits - 1)), size
	}
	return bigZero, size
}

func wrapTo(t types.Type, x *Term) *Term {
	lo, size := typeRange(t)
	return mkWrap(x, lo, size)
}

// concretize returns a typed Go value if x is constant, else x.
func concretize(t types.Type, x *Term) value {
	if x.op != OpConst {
		return x
	}
	if x.isBool {
		return x.c.Sign() != 0
	}
	b, ok := t.Underlying().(*types.Basic)
	if !ok {
		return x
	}
	switch b.Kind() {
	case types.Bool, types.UntypedBool:
		return x.c.Sign() != 0
	case types.Int, types.UntypedInt:
		return int(x.c.Int64())
	case types.Int8:
		return int8(x.c.Int64())
	case types.Int16:
		return int16(x.c.Int64())
	case types.Int32, types.UntypedRune:
		return int32(x.c.Int64())
	case types.Int64:
		return x.c.Int64()
	case types.Uint:
		return uint(x.c.Uint64())
	case types.Uint8:
		return uint8(x.c.Uint64())
	case types.Uint16:
		return uint16(x.c.Uint64())
	case types.Uint32:
		return uint32(x.c.Uint64())
	case types.Uint64:
		return x.c.Uint64()
	case types.Uintptr:
		return uintptr(x.c.Uint64())
	}
	return x
}

// fromTermLike converts a constant term back to the Go type of exemplar.
func fromTermLike(exemplar value, r *Term) value {
	if r.op != OpConst {
		return r
	}
	switch exemplar.(type) {
	case bool:
		return r.c.Sign() != 0
	case int:
		return int(r.c.Int64())
	case int8:
		return int8(r.c.Int64())
	case int16:
		return int16(r.c.Int64())
	case int32:
		return int32(r.c.Int64())
	case int64:
		return r.c.Int64()
	case uint:
		return uint(r.c.Uint64())
	case uint8:
		return uint8(r.c.Uint64())
	case uint16:
		return uint16(r.c.Uint64())
	case uint32:
		return uint32(r.c.Uint64())
	case uint64:
		return r.c.Uint64()
	case uintptr:
		return uintptr(r.c.Uint64())
	}
	return r
}

func simplifyValue(t *Term) value { return t }

// unsignedRepr maps a value of integer type t to its two's-complement bit pattern.
func unsignedRepr(t types.Type, x *Term) *Term {
	bits, signed, _ := intInfo(t)
	if !signed || (x.lo != nil && x.lo.Sign() >= 0) {
		return x
	}
	if x.hi != nil && x.hi.Sign() < 0 {
		return mkAdd(x, mkConst(pow2(bits)))
	}
	return mkIte(mkLt(x, mkConstI(0)), mkAdd(x, mkConst(pow2(bits))), x)
}

func fromUnsignedRepr(t types.Type, u *Term) *Term {
	bits, signed, _ := intInfo(t)
	if !signed {
		return u
	}
	half := pow2(bits - 1)
	if u.hi != nil && u.hi.Cmp(half) < 0 {
		return u
	}
	return mkIte(mkLt(u, mkConst(half)), u, mkSub(u, mkConst(pow2(bits))))
}

// pow2Divisor returns the largest k (capped at 64) such that 2^k divides every value of t.
func pow2Divisor(t *Term) uint {
	switch t.op {
	case OpConst:
		if t.c.Sign() == 0 {
			return 64
		}
		return min(t.c.TrailingZeroBits(), 64)
	case OpMulC:
		return min(t.c.TrailingZeroBits()+pow2Divisor(t.args[0]), 64)
	case OpAdd, OpSub:
		return min(pow2Divisor(t.args[0]), pow2Divisor(t.args[1]))
	case OpMod:
		return min(pow2Divisor(t.args[0]), t.c.TrailingZeroBits())
	case OpIte:
		return min(pow2Divisor(t.args[1]), pow2Divisor(t.args[2]))
	}
	return 0
}

// andConst computes u & m for non-negative u (bit pattern) and constant mask m.
func andConst(u *Term, m *big.Int) *Term {
	if m.Sign() == 0 {
		return mkConstI(0)
	}
	if r := mapIteLeaves(u, func(c *big.Int) *Term { return mkConst(new(big.Int).And(c, m)) }); r != nil {
		return r
	}
	res := mkConstI(0)
	n := m.BitLen()
	i := 0
	for i < n {
		if m.Bit(i) == 0 {
			i++
			continue
		}
		j := i
		for j < n && m.Bit(j) == 1 {
			j++
		}
		// bits [i,j)
		var part *Term
		lowBound := pow2(uint(i))
		if u.hi != nil && u.hi.Cmp(lowBound) < 0 {
			part = mkConstI(0)
		} else if pow2Divisor(u) >= uint(j) {
			part = mkConstI(0)
		} else {
			part = mkMulC(mkMod(mkDiv(u, lowBound), pow2(uint(j-i))), lowBound)
		}
		res = mkAdd(res, part)
		i = j
	}
	return res
}

func symBitop(op token.Token, t types.Type, x, y *Term) *Term {
	bits, _, _ := intInfo(t)
	ux, uy := unsignedRepr(t, x), unsignedRepr(t, y)
	var r *Term
	cx, cy := ux.op == OpConst, uy.op == OpConst
	if cx && !cy && op != token.AND_NOT {
		ux, uy, cx, cy = uy, ux, cy, cx
	}
	switch op {
	case token.AND:
		if cy {
			r = andConst(ux, uy.c)
		} else {
			// disjointness by intervals / alignment
			if (ux.hi != nil && uint(ux.hi.BitLen()) <= pow2Divisor(uy)) || (uy.hi != nil && uint(uy.hi.BitLen()) <= pow2Divisor(ux)) {
				r = mkConstI(0)
			} else {
				r = mkBV("bvand", bits, ux, uy)
			}
		}
	case token.OR:
		if cy {
			r = mkAdd(mkSub(ux, andConst(ux, uy.c)), uy)
		} else if (ux.hi != nil && uint(ux.hi.BitLen()) <= pow2Divisor(uy)) || (uy.hi != nil && uint(uy.hi.BitLen()) <= pow2Divisor(ux)) {
			r = mkAdd(ux, uy)
		} else {
			r = mkBV("bvor", bits, ux, uy)
		}
	case token.XOR:
		if cy {
			r = mkSub(mkAdd(ux, uy), mkMulC(andConst(ux, uy.c), bi(2)))
		} else {
			r = mkBV("bvxor", bits, ux, uy)
		}
	case token.AND_NOT:
		if cy {
			r = mkSub(ux, andConst(ux, uy.c))
		} else if cx {
			// c &^ y = c - (c & y)
			r = mkSub(ux, andConst(uy, ux.c))
		} else {
			r = mkSub(ux, mkBV("bvand", bits, ux, uy))
		}
	}
	return fromUnsignedRepr(t, r)
}

// symBinop: at least one operand symbolic.  t is the static type of x.
func symBinop(op token.Token, t types.Type, x, y value) value {
	tx, ty := toTerm(x), toTerm(y)
	if tx.isBool || ty.isBool {
		switch op {
		case token.EQL:
			return concretize(types.Typ[types.Bool], mkEq(tx, ty))
		case token.NEQ:
			return concretize(types.Typ[types.Bool], mkNot(mkEq(tx, ty)))
		}
		abort("bool binop %s", op)
	}
	boolT := types.Typ[types.Bool]
	switch op {
	case token.ADD:
		return concretize(t, wrapTo(t, mkAdd(tx, ty)))
	case token.SUB:
		return concretize(t, wrapTo(t, mkSub(tx, ty)))
	case token.MUL:
		return concretize(t, wrapTo(t, mkMul(tx, ty)))
	case token.QUO, token.REM:
		if ty.op != OpConst {
			abort("division by symbolic value")
		}
		if ty.c.Sign() == 0 {
			panic(runtimeErrorf("integer divide by zero"))
		}
		if op == token.QUO {
			return concretize(t, wrapTo(t, mkTDiv(tx, ty.c)))
		}
		return concretize(t, mkTRem(tx, ty.c))
	case token.AND, token.OR, token.XOR, token.AND_NOT:
		return concretize(t, symBitop(op, t, tx, ty))
	case token.SHL, token.SHR:
		if ty.op != OpConst {
			// small symbolic shift amounts: ite chain
			if ty.lo != nil && ty.hi != nil && ty.lo.Sign() >= 0 && ty.hi.Cmp(bi(64)) <= 0 {
				var r *Term
				for k := ty.hi.Int64(); k >= ty.lo.Int64(); k-- {
					v := toTerm(symBinop(op, t, tx, uint64(k)))
					if r == nil {
						r = v
					} else {
						r = mkIte(mkEq(ty, mkConstI(k)), v, r)
					}
				}
				return concretize(t, r)
			}
			abort("shift by unbounded symbolic amount")
		}
		if ty.c.Sign() < 0 {
			panic(runtimeErrorf("negative shift amount"))
		}
		bits, signed, _ := intInfo(t)
		k := uint(64)
		if ty.c.IsUint64() && ty.c.Uint64() < 64 {
			k = uint(ty.c.Uint64())
		}
		if op == token.SHL {
			if k >= bits {
				return concretize(t, mkConstI(0))
			}
			return concretize(t, wrapTo(t, mkMulC(tx, pow2(k))))
		}
		if k >= bits {
			if signed {
				return concretize(t, mkIte(mkLt(tx, mkConstI(0)), mkConstI(-1), mkConstI(0)))
			}
			return concretize(t, mkConstI(0))
		}
		return concretize(t, mkDiv(tx, pow2(k)))
	case token.LSS:
		return concretize(boolT, mkLt(tx, ty))
	case token.LEQ:
		return concretize(boolT, mkLe(tx, ty))
	case token.GTR:
		return concretize(boolT, mkLt(ty, tx))
	case token.GEQ:
		return concretize(boolT, mkLe(ty, tx))
	case token.EQL:
		return concretize(boolT, mkEq(tx, ty))
	case token.NEQ:
		return concretize(boolT, mkNot(mkEq(tx, ty)))
	}
	abort("symBinop: %s", op)
	return nil
}

func symUnop(op token.Token, t types.Type, x *Term) value {
	switch op {
	case token.NOT:
		return concretize(types.Typ[types.Bool], mkNot(x))
	case token.SUB:
		return concretize(t, wrapTo(t, mkNeg(x)))
	case token.XOR:
		bits, signed, _ := intInfo(t)
		if signed {
			return concretize(t, mkSub(mkConstI(-1), x))
		}
		return concretize(t, mkSub(mkConst(new(big.Int).Sub(pow2(bits), bigOne)), x))
	}
	abort("symUnop: %s", op)
	return nil
}

// symFloat is the exact rational value t*num/den of a float64 computed from a
// symbolic integer by conversions and multiplications/divisions by constants
// (DESIGN.md §2.6); rounding error is accounted for when converting back.
type symFloat struct {
	t        *Term
	num, den *big.Int
	seconds  bool // produced by (time.Duration).Seconds
}

func ratOfFloat(f float64) (num, den *big.Int, ok bool) {
	r := new(big.Rat)
	if r.SetFloat64(f) == nil {
		return nil, nil, false
	}
	return new(big.Int).Set(r.Num()), new(big.Int).Set(r.Denom()), true
}

func symConv(p *pathState, tdst, tsrc types.Type, x value) value {
	switch x := x.(type) {
	case *Term:
		if x.isBool {
			return x
		}
		if _, _, ok := intInfo(tdst); ok {
			return concretize(tdst, wrapTo(tdst, x))
		}
		if b, ok := tdst.Underlying().(*types.Basic); ok && b.Info()&types.IsFloat != 0 {
			return symFloat{t: x, num: bigOne, den: bigOne}
		}
		if b, ok := tdst.Underlying().(*types.Basic); ok && b.Kind() == types.String {
			// string(rune) of a symbolic code point: only the one-byte (ASCII) case
			if x.lo != nil && x.hi != nil && x.lo.Sign() >= 0 && x.hi.Cmp(bi(127)) <= 0 {
				return sstr{[]value{x}}
			}
			abort("string(rune) of a symbolic, possibly non-ASCII code point")
		}
		abort("conversion of symbolic %s to %s", tsrc, tdst)
	case symFloat:
		if b, ok := tdst.Underlying().(*types.Basic); ok && b.Info()&types.IsFloat != 0 {
			return x
		}
		if _, _, ok := intInfo(tdst); !ok {
			abort("conversion of symbolic float to %s", tdst)
		}
		num, den := x.num, x.den
		extra := bigZero
		if !x.seconds && den.BitLen() > 40 {
			// the float constant (e.g. 0.1 = 3602879701896397/2^55) is replaced by the
			// simplest fraction within relative distance 2^-50 (here 1/10); on |t| < 2^63
			// this moves the value by less than 2^13, added to the error bound below
			if a, b, ok := simpleFraction(num, den); ok {
				num, den, extra = a, b, pow2(13)
			}
		}
		scaled := mkMulC(x.t, num)
		q := mkTDiv(scaled, den)
		var e *Term
		switch {
		case x.seconds:
			// exact below 2^22 s; otherwise float64(sec)+float64(nsec)/1e9 may round up to the next integer
			lim := new(big.Int).Mul(pow2(22), bi(1_000_000_000))
			if x.t.lo != nil && x.t.hi != nil && x.t.hi.Cmp(lim) < 0 && x.t.lo.Cmp(new(big.Int).Neg(lim)) > 0 {
				e = mkConstI(0)
			} else {
				f := p.fresh("fpsec", bi(0), bi(1))
				big := mkOr(mkLe(mkConst(lim), x.t), mkLe(x.t, mkConst(new(big.Int).Neg(lim))))
				e = mkIte(big, mkIte(mkLt(x.t, mkConstI(0)), mkNeg(f), f), mkConstI(0))
			}
		case x.num.Cmp(bigOne) == 0 && x.den.Cmp(bigOne) == 0 && x.t.lo != nil && x.t.hi != nil && x.t.hi.Cmp(pow2(53)) <= 0 && x.t.lo.Cmp(new(big.Int).Neg(pow2(53))) >= 0:
			e = mkConstI(0)
		default:
			// |relative error| <= 2^-51 on |value| < 2^64  => absolute error < 2^13 (+1 for truncation)
			bound := new(big.Int).Add(pow2(13), bigOne)
			bound.Add(bound, extra)
			if x.num.Cmp(x.den) > 0 {
				k := new(big.Int).Div(x.num, x.den)
				bound.Mul(bound, k.Add(k, bigOne))
			}
			e = p.fresh("fperr", new(big.Int).Neg(bound), bound)
		}
		return concretize(tdst, wrapTo(tdst, mkAdd(q, e)))
	}
	abort("symConv: %T", x)
	return nil
}

func symFloatBinop(op token.Token, x, y value) value {
	sx, xok := x.(symFloat)
	sy, yok := y.(symFloat)
	switch {
	case xok && !yok:
		f, ok := y.(float64)
		if !ok {
			abort("symbolic float op with %T", y)
		}
		n, d, ok := ratOfFloat(f)
		if !ok || n.Sign() <= 0 {
			abort("symbolic float op with constant %v", f)
		}
		switch op {
		case token.MUL:
			return symFloat{t: sx.t, num: new(big.Int).Mul(sx.num, n), den: new(big.Int).Mul(sx.den, d)}
		case token.QUO:
			return symFloat{t: sx.t, num: new(big.Int).Mul(sx.num, d), den: new(big.Int).Mul(sx.den, n)}
		}
	case yok && !xok:
		if op == token.MUL {
			return symFloatBinop(op, y, x)
		}
	}
	_ = sy
	abort("unsupported symbolic float operation %s", op)
	return nil
}

type runtimeError struct{ msg, where string }

func (e runtimeError) Error() string   { return "runtime error: " + e.msg }
func (e runtimeError) RuntimeError()   {}
func runtimeErrorf(format string, args ...interface{}) runtimeError {
	return runtimeError{msg: fmt.Sprintf(format, args...)}
}

// simpleFraction finds a/b with b <= 10^6 and |num/den - a/b| <= 2^-50 * num/den using
// continued-fraction convergents.
func simpleFraction(num, den *big.Int) (*big.Int, *big.Int, bool) {
	target := new(big.Rat).SetFrac(num, den)
	tol := new(big.Rat).Mul(target, new(big.Rat).SetFrac(bigOne, pow2(50)))
	// convergents
	h0, h1 := big.NewInt(0), big.NewInt(1)
	k0, k1 := big.NewInt(1), big.NewInt(0)
	n, d := new(big.Int).Set(num), new(big.Int).Set(den)
	for i := 0; i < 64 && d.Sign() != 0; i++ {
		a, r := new(big.Int).DivMod(n, d, new(big.Int))
		h2 := new(big.Int).Add(new(big.Int).Mul(a, h1), h0)
		k2 := new(big.Int).Add(new(big.Int).Mul(a, k1), k0)
		h0, h1, k0, k1 = h1, h2, k1, k2
		n, d = d, r
		if k1.Cmp(big.NewInt(1000000)) > 0 {
			return nil, nil, false
		}
		if h1.Sign() > 0 {
			diff := new(big.Rat).Sub(target, new(big.Rat).SetFrac(h1, k1))
			if diff.Abs(diff).Cmp(tol) <= 0 {
				return h1, k1, true
			}
		}
	}
	return nil, nil, false
}

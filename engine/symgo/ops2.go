package symgo

// Symbolic-aware replacements for the parts of interp/ops.go that touch
// strings, maps, slices, pointers and built-ins.

import (
	"bytes"
	"fmt"
	"math/big"
	"go/token"
	"go/types"
	"os"
	"unicode/utf8"
	"unsafe"

	"golang.org/x/tools/go/ssa"
)

// elemRef is the address of elems[idx] for a symbolic, in-bounds idx.
type elemRef struct {
	elems []value
	idx   *Term
}

// selectElem builds elems[idx] as a balanced ite tree (elements must be scalars).
func selectElem(elems []value, idx *Term, t types.Type) value {
	lo, hi := 0, len(elems)-1
	if idx.lo != nil && idx.lo.IsInt64() && idx.lo.Int64() > int64(lo) {
		lo = int(idx.lo.Int64())
	}
	if idx.hi != nil && idx.hi.IsInt64() && idx.hi.Int64() < int64(hi) {
		hi = int(idx.hi.Int64())
	}
	if lo > hi {
		abort("symbolic index with empty feasible range")
	}
	// all-constant tables: compose with a previous look-up and detect identities
	allConst := true
	for k := lo; k <= hi; k++ {
		if _, isT := elems[k].(*Term); isT || !isScalar(elems[k]) {
			allConst = false
			break
		}
		if _, isB := elems[k].(bool); isB {
			allConst = false
			break
		}
	}
	if allConst && idx.sel != nil {
		// elems[table[base]]: one look-up in the composed table
		in := idx.sel
		vals := make([]value, len(in.vals))
		ok := true
		for k, v := range in.vals {
			if !v.IsInt64() || v.Int64() < 0 || v.Int64() >= int64(len(elems)) {
				ok = false
				break
			}
			vals[k] = elems[v.Int64()]
		}
		if ok {
			shifted := in.base
			if in.lo != 0 {
				shifted = mkSub(in.base, mkConstI(int64(in.lo)))
			}
			return selectElem(vals, shifted, t)
		}
	}
	if allConst {
		ident := true
		for k := lo; k <= hi; k++ {
			if bigOf(elems[k]).Cmp(bi(int64(k))) != 0 {
				ident = false
				break
			}
		}
		if ident {
			return concretize(t, idx) // table[i] == i on the feasible range
		}
	}
	var build func(l, h int) *Term
	build = func(l, h int) *Term {
		if l == h {
			if !isScalar(elems[l]) {
				abort("symbolic index into elements of type %T", elems[l])
			}
			return toTerm(elems[l])
		}
		m := (l + h) / 2
		return mkIte(mkLe(idx, mkConstI(int64(m))), build(l, m), build(m+1, h))
	}
	r := build(lo, hi)
	if allConst && r.op == OpIte {
		vals := make([]*big.Int, hi-lo+1)
		for k := lo; k <= hi; k++ {
			vals[k-lo] = bigOf(elems[k])
		}
		// the tree is fresh (not shared): annotate it
		r.sel = &selInfo{base: idx, lo: lo, vals: vals}
	}
	return concretize(t, r)
}

func (fr *frame) load(T types.Type, addr value) value {
	switch a := addr.(type) {
	case *value:
		if a == nil {
			panic(nilDeref())
		}
		return load(T, a)
	case *elemRef:
		return selectElem(a.elems, a.idx, T)
	}
	panic(fmt.Sprintf("load: bad address %T", addr))
}

func (fr *frame) store(T types.Type, addr value, v value) {
	switch a := addr.(type) {
	case *value:
		if a == nil {
			panic(nilDeref())
		}
		store(T, a, v)
		return
	case *elemRef:
		if !isScalar(v) {
			abort("store of %T through symbolic index", v)
		}
		nv := toTerm(v)
		for k := range a.elems {
			if !isScalar(a.elems[k]) {
				abort("store through symbolic index into %T elements", a.elems[k])
			}
			c := mkEq(a.idx, mkConstI(int64(k)))
			if b, ok := c.constBool(); ok && !b {
				continue
			}
			a.elems[k] = fromTermLike(firstConcrete(a.elems[k], v), mkIte(c, nv, toTerm(a.elems[k])))
		}
		return
	}
	panic(fmt.Sprintf("store: bad address %T", addr))
}

func firstConcrete(x, y value) value {
	if _, ok := x.(*Term); !ok {
		return x
	}
	return y
}

func (fr *frame) unop(instr *ssa.UnOp, x value) value {
	switch instr.Op {
	case token.ARROW:
		fr.pos = instr.Pos()
		v, ok := fr.i.sched.recv(fr, x.(*gochan))
		if !ok {
			v = zero(instr.X.Type().Underlying().(*types.Chan).Elem())
		}
		if instr.CommaOk {
			return tuple{v, ok}
		}
		return v
	case token.MUL:
		fr.pos = instr.Pos()
		return fr.load(mustDeref(instr.X.Type()), x)
	}
	if t, ok := x.(*Term); ok {
		return symUnop(instr.Op, instr.X.Type(), t)
	}
	if _, ok := x.(symFloat); ok {
		abort("unary op on symbolic float")
	}
	return concreteUnop(instr, x)
}

func notV(v value) value {
	switch v := v.(type) {
	case bool:
		return !v
	case *Term:
		return simplifyBool(mkNot(v))
	}
	panic("notV")
}

func eqnilV(t types.Type, x, y value) value {
	switch t.Underlying().(type) {
	case *types.Map, *types.Signature, *types.Slice:
		return eqnil(t, x, y)
	case *types.Chan:
		return x.(*gochan) == y.(*gochan)
	}
	return equalsV(t, x, y)
}

func symStringBinop(op token.Token, x, y value) value {
	switch op {
	case token.ADD:
		return strConcat(x, y)
	case token.EQL:
		return strEq(x, y)
	case token.NEQ:
		return notV(strEq(x, y))
	case token.LSS:
		return strLess(x, y)
	case token.GTR:
		return strLess(y, x)
	case token.LEQ:
		return notV(strLess(y, x))
	case token.GEQ:
		return notV(strLess(x, y))
	}
	abort("string operator %s on symbolic strings", op)
	return nil
}

// slice returns x[lo:hi:max] with Go's bounds checks.
func (fr *frame) slice(x, lo, hi, max value) value {
	var Len, Cap int
	switch x := x.(type) {
	case string, sstr, sdate:
		Len = strLen(x)
		Cap = Len
	case []value:
		Len = len(x)
		Cap = cap(x)
	case *value:
		if x == nil {
			panic(nilDeref())
		}
		a := (*x).(array)
		Len = len(a)
		Cap = cap(a)
	default:
		if isStringLike(x) {
			abort("slice of opaque string %s", describeString(x))
		}
	}
	cidx := func(v value, def int64) int64 {
		if v == nil {
			return def
		}
		n, ok := fr.concreteIndex(v, "slice bound")
		if !ok {
			abort("slice bound is symbolic")
		}
		return n
	}
	l := cidx(lo, 0)
	h := cidx(hi, int64(Len))
	m := cidx(max, int64(Cap))
	if isStringLike(x) {
		if l < 0 || h < l || h > int64(Len) {
			panic(runtimeErrorf("slice bounds out of range [%d:%d] with length %d", l, h, Len))
		}
		return strSlice(x, int(l), int(h))
	}
	if l < 0 || h < l || m < h || m > int64(Cap) {
		panic(runtimeErrorf("slice bounds out of range [%d:%d:%d] with capacity %d", l, h, m, Cap))
	}
	switch x := x.(type) {
	case []value:
		return x[l:h:m]
	case *value:
		a := (*x).(array)
		return []value(a)[l:h:m]
	}
	panic(fmt.Sprintf("slice: unexpected X type: %T", x))
}

func (fr *frame) lookup(instr *ssa.Lookup, x, idx value) value {
	m, ok := x.(*omap)
	if !ok {
		panic(fmt.Sprintf("unexpected x type in Lookup: %T", x))
	}
	v, found := m.lookup(idx, fr.decide)
	if !found {
		v = zero(instr.X.Type().Underlying().(*types.Map).Elem())
	}
	if instr.CommaOk {
		return tuple{v, found}
	}
	return v
}

func callBuiltin(caller *frame, callpos token.Pos, fn *ssa.Builtin, args []value) value {
	switch fn.Name() {
	case "append":
		if len(args) == 1 {
			return args[0]
		}
		if isStringLike(args[1]) {
			return append(args[0].([]value), strBytes(args[1])...)
		}
		return append(args[0].([]value), args[1].([]value)...)

	case "copy":
		src := args[1]
		if isStringLike(src) {
			src = strBytes(src)
		}
		return copy(args[0].([]value), src.([]value))

	case "close":
		caller.i.sched.closeChan(caller, args[0].(*gochan))
		return nil

	case "delete":
		args[0].(*omap).delete(args[1], caller.decide)
		return nil

	case "print", "println":
		ln := fn.Name() == "println"
		var buf bytes.Buffer
		for i, arg := range args {
			if i > 0 && ln {
				buf.WriteRune(' ')
			}
			buf.WriteString(toString(arg))
		}
		if ln {
			buf.WriteRune('\n')
		}
		if os.Getenv("VX_DEBUG") != "" {
			os.Stderr.Write(buf.Bytes())
		}
		return nil

	case "len":
		switch x := args[0].(type) {
		case string, sstr, sdate, snum:
			return strLen(x)
		case array:
			return len(x)
		case *value:
			return len((*x).(array))
		case []value:
			return len(x)
		case *omap:
			return x.len()
		case *gochan:
			if x == nil {
				return 0
			}
			return len(x.buf)
		default:
			panic(fmt.Sprintf("len: illegal operand: %T", x))
		}

	case "cap":
		switch x := args[0].(type) {
		case array:
			return cap(x)
		case *value:
			return cap((*x).(array))
		case []value:
			return cap(x)
		case *gochan:
			if x == nil {
				return 0
			}
			return x.cap
		default:
			panic(fmt.Sprintf("cap: illegal operand: %T", x))
		}

	case "clear":
		switch x := args[0].(type) {
		case []value:
			if len(x) > 0 {
				tElt := fn.Type().(*types.Signature).Params().At(0).Type().Underlying().(*types.Slice).Elem()
				for i := range x {
					x[i] = zero(tElt)
				}
			}
		case *omap:
			if x != nil {
				for _, e := range x.entries {
					e.dead = true
				}
				x.idx = map[value]*oentry{}
				x.live, x.nsym = 0, 0
			}
		}
		return nil

	case "min":
		return foldLeft(vmin, args)
	case "max":
		return foldLeft(vmax, args)

	case "panic":
		panic(targetPanic{args[0]})

	case "recover":
		return doRecover(caller)

	case "ssa:wrapnilchk":
		recv := args[0]
		if recv.(*value) == nil {
			panic(runtimeErrorf("value method (%s).%s called using nil *%s pointer", args[1], args[2], args[1]))
		}
		return recv

	case "ssa:deferstack":
		return &caller.defers

	// unsafe.* as lowered by go/ssa
	case "String":
		n := int(asInt64(args[1]))
		switch p := args[0].(type) {
		case *value:
			if n == 0 {
				return ""
			}
			if p == nil {
				panic(nilDeref())
			}
			return mkSstr(append([]value(nil), unsafe.Slice(p, n)...))
		case unsafePtr:
			if p.b != nil {
				return mkSstr(append([]value(nil), p.b[:n]...))
			}
			return strSlice(p.s, 0, n)
		}
	case "StringData":
		return unsafePtr{s: args[0]}
	case "SliceData":
		return unsafePtr{b: args[0].([]value)}
	case "Slice":
		n := int(asInt64(args[1]))
		switch p := args[0].(type) {
		case *value:
			if p == nil {
				return []value(nil)
			}
			return unsafe.Slice(p, n)
		case unsafePtr:
			if p.b != nil {
				return p.b[:n]
			}
			return append([]value(nil), strBytes(p.s)[:n]...)
		}
	}
	panic("unknown built-in: " + fn.Name())
}

func (fr *frame) rangeIter(x value, t types.Type) iter {
	switch x := x.(type) {
	case *omap:
		return &omapIter{m: x}
	case string, sstr:
		return &symStringIter{fr: fr, b: strBytes(x)}
	}
	if isStringLike(x) {
		abort("range over opaque string %s", describeString(x))
	}
	panic(fmt.Sprintf("cannot range over %T", x))
}

type symStringIter struct {
	fr *frame
	b  []value
	i  int
}

func (it *symStringIter) next() tuple {
	if it.i >= len(it.b) {
		return tuple{false, nil, nil}
	}
	start := it.i
	switch c := it.b[it.i].(type) {
	case uint8:
		if c < utf8.RuneSelf {
			it.i++
			return tuple{true, start, rune(c)}
		}
		// multi-byte: need concrete continuation bytes
		var buf []byte
		for j := it.i; j < len(it.b) && j < it.i+4; j++ {
			cb, ok := it.b[j].(uint8)
			if !ok {
				break
			}
			buf = append(buf, cb)
		}
		if !utf8.FullRune(buf) && len(buf) < len(it.b)-it.i && len(buf) < 4 {
			abort("range over string: symbolic continuation byte")
		}
		r, n := utf8.DecodeRune(buf)
		it.i += n
		return tuple{true, start, r}
	case *Term:
		if !it.fr.i.p.branch(mkLt(c, mkConstI(utf8.RuneSelf))) {
			abort("range over string: symbolic non-ASCII byte")
		}
		it.i++
		return tuple{true, start, value(c)}
	}
	panic("symStringIter")
}

// convStringLike handles conversions involving strings with symbolic content.
func convStringLike(p *pathState, tdst, tsrc types.Type, x value) (value, bool) {
	utSrc, utDst := tsrc.Underlying(), tdst.Underlying()
	if sl, ok := utSrc.(*types.Slice); ok {
		if b, ok := utDst.(*types.Basic); ok && b.Kind() == types.String {
			eb, _ := sl.Elem().Underlying().(*types.Basic)
			xs := x.([]value)
			if eb != nil && eb.Kind() == types.Byte {
				if len(xs) == 1 {
					if bl, ok := xs[0].(blob); ok {
						return bl, true // opaque serialised token viewed as string
					}
				}
				return mkSstr(append([]value(nil), xs...)), true
			}
			if eb != nil && eb.Kind() == types.Rune {
				for _, r := range xs {
					if _, ok := r.(*Term); ok {
						abort("[]rune with symbolic elements to string")
					}
				}
				return nil, false
			}
		}
		return nil, false
	}
	if !isStringLike(x) {
		return nil, false
	}
	if _, isStr := x.(string); isStr {
		return nil, false
	}
	switch d := utDst.(type) {
	case *types.Basic:
		if d.Kind() == types.String {
			return x, true
		}
	case *types.Slice:
		eb, _ := d.Elem().Underlying().(*types.Basic)
		if eb != nil && eb.Kind() == types.Byte {
			return append([]value(nil), strBytes(x)...), true
		}
		if eb != nil && eb.Kind() == types.Rune {
			var res []value
			for _, b := range strBytes(x) {
				switch c := b.(type) {
				case uint8:
					if c >= utf8.RuneSelf {
						abort("string with non-ASCII bytes to []rune")
					}
					res = append(res, rune(c))
				case *Term:
					if c.hi == nil || c.hi.Cmp(bi(127)) > 0 {
						abort("string with symbolic possibly non-ASCII bytes to []rune")
					}
					res = append(res, value(c))
				}
			}
			return res, true
		}
	}
	abort("conversion of %s to %s", describeString(x), tdst)
	return nil, false
}

package symgo

// If-conversion (DESIGN.md §2.4): at an If on a symbolic condition, short-circuit
// chains (a && b, a || b) are combined into one condition and side-effect-free
// triangles/diamonds are executed on both arms with the join block's phis turned
// into ite-terms, so that the path does not fork.  Only instructions that cannot
// fault and have no effects are speculated; anything else falls back to a fork.

import (
	"go/token"

	"golang.org/x/tools/go/ssa"
)

type specAbort struct{}

func blockHasPhis(b *ssa.BasicBlock) bool {
	_, ok := b.Instrs[0].(*ssa.Phi)
	return ok
}

func endsInIf(b *ssa.BasicBlock) *ssa.If {
	i, _ := b.Instrs[len(b.Instrs)-1].(*ssa.If)
	return i
}

func endsInJump(b *ssa.BasicBlock) bool {
	_, ok := b.Instrs[len(b.Instrs)-1].(*ssa.Jump)
	return ok
}

// speculable reports whether all non-terminator instructions of b may be executed
// speculatively.
func (fr *frame) speculable(b *ssa.BasicBlock) bool {
	if len(b.Instrs) > 40 {
		return false
	}
	for _, in := range b.Instrs[:len(b.Instrs)-1] {
		switch in := in.(type) {
		case *ssa.DebugRef, *ssa.ChangeType, *ssa.Extract, *ssa.Field, *ssa.Phi:
		case *ssa.BinOp:
			if in.Op == token.QUO || in.Op == token.REM {
				return false
			}
		case *ssa.UnOp:
			if in.Op == token.MUL || in.Op == token.ARROW {
				return false
			}
		case *ssa.Convert:
			if _, _, ok := intInfo(in.Type()); !ok {
				return false
			}
			if _, _, ok := intInfo(in.X.Type()); !ok {
				return false
			}
		case *ssa.Call:
			if !fr.pureCall(&in.Call) {
				return false
			}
		default:
			return false
		}
	}
	return true
}

func (fr *frame) pureCall(c *ssa.CallCommon) bool {
	if c.Method != nil {
		return false
	}
	switch f := c.Value.(type) {
	case *ssa.Builtin:
		switch f.Name() {
		case "min", "max":
			return true
		}
	case *ssa.Function:
		name := f.String()
		if fr.i.ex.sums[name] != nil || fr.i.mergeable[name] {
			return true
		}
		if prim, ok := isVxPrim(f); ok {
			switch prim {
			case "vxAnd", "vxOr", "vxImplies", "vxZOf", "vxZAdd", "vxZSub", "vxZMulK", "vxZDivK", "vxZLess", "vxZLeq", "vxZEq",
				"vxZMin", "vxZMax", "vxZIte", "vxZTime", "vxZClampInt64", "vxZCmp":
				return true
			}
		}
	}
	return false
}

// speculate executes the body of b (without its terminator); false = abandoned.
func (fr *frame) speculate(b *ssa.BasicBlock, pred *ssa.BasicBlock) (ok bool) {
	p := fr.i.p
	saved := p.speculating
	p.speculating = true
	savedBlock, savedPrev := fr.block, fr.prevBlock
	defer func() {
		p.speculating = saved
		fr.block, fr.prevBlock = savedBlock, savedPrev
		if r := recover(); r != nil {
			switch r.(type) {
			case specAbort, runtimeError, targetPanic, pathEnd, engineAbort:
				ok = false
			default:
				panic(r)
			}
		}
	}()
	fr.block, fr.prevBlock = b, pred
	instrs := executePhis(fr)
	for _, in := range instrs[:len(instrs)-1] {
		p.steps++
		visitInstr(fr, in)
	}
	return true
}

// tryIfConvert handles the If terminating fr.block; returns true if control was
// transferred (fr.block updated).
func (fr *frame) tryIfConvert(instr *ssa.If, c *Term) bool {
	p := fr.i.p
	if p.speculating || p.noIfConv {
		return false
	}
	B := fr.block
	T, F := B.Succs[0], B.Succs[1]
	predT, predF := B, B
	combined := false
	for iter := 0; iter < 16; iter++ {
		// a && b: T evaluates b and fails over to the same F
		if len(T.Preds) == 1 && !blockHasPhis(F) {
			if in := endsInIf(T); in != nil && T.Succs[1] == F && fr.speculable(T) {
				if fr.speculate(T, predT) {
					if c2, ok := condTerm(fr.get(in.Cond)); ok {
						c = mkAnd(c, c2)
						predT, T = T, T.Succs[0]
						combined = true
						continue
					}
				}
			}
		}
		// a || b: F evaluates b and succeeds into the same T
		if len(F.Preds) == 1 && !blockHasPhis(T) {
			if in := endsInIf(F); in != nil && F.Succs[0] == T && fr.speculable(F) {
				if fr.speculate(F, predF) {
					if c2, ok := condTerm(fr.get(in.Cond)); ok {
						c = mkOr(c, c2)
						predF, F = F, F.Succs[1]
						combined = true
						continue
					}
				}
			}
		}
		break
	}
	c = p.simp(c)
	if b, ok := c.constBool(); ok {
		if b {
			fr.prevBlock, fr.block = predT, T
		} else {
			fr.prevBlock, fr.block = predF, F
		}
		return true
	}
	// triangle / diamond
	simple := func(b *ssa.BasicBlock) bool {
		return len(b.Preds) == 1 && len(b.Succs) == 1 && endsInJump(b) && fr.speculable(b)
	}
	var J *ssa.BasicBlock
	var viaT, viaF *ssa.BasicBlock // predecessor of J on each side
	switch {
	case T != F && simple(T) && T.Succs[0] == F:
		J, viaT, viaF = F, T, predF
		if !fr.speculate(T, predT) {
			J = nil
		}
	case T != F && simple(F) && F.Succs[0] == T:
		J, viaT, viaF = T, predT, F
		if !fr.speculate(F, predF) {
			J = nil
		}
	case T != F && simple(T) && simple(F) && T.Succs[0] == F.Succs[0]:
		J, viaT, viaF = T.Succs[0], T, F
		if !fr.speculate(T, predT) || !fr.speculate(F, predF) {
			J = nil
		}
	}
	if J != nil {
		iT, iF := -1, -1
		for k, pr := range J.Preds {
			if pr == viaT && iT < 0 {
				iT = k
			} else if pr == viaF && iF < 0 {
				iF = k
			}
		}
		// a block may appear twice among the predecessors (both edges from B)
		if viaT == viaF {
			iT, iF = -1, -1
			for k, pr := range J.Preds {
				if pr == viaT {
					if iT < 0 {
						iT = k
					} else {
						iF = k
					}
				}
			}
		}
		if iT >= 0 && iF >= 0 {
			var merged []value
			ok := true
			for _, in := range J.Instrs {
				phi, isPhi := in.(*ssa.Phi)
				if !isPhi {
					break
				}
				m, mok := mergeShape(c, fr.get(phi.Edges[iT]), fr.get(phi.Edges[iF]))
				if !mok {
					ok = false
					break
				}
				merged = append(merged, m)
			}
			if ok {
				fr.prevBlock, fr.block = viaT, J
				fr.mergedPhis = merged
				fr.hasMerged = true
				p.ifconv++
				return true
			}
		}
	}
	if combined {
		if p.branch(c) {
			fr.prevBlock, fr.block = predT, T
		} else {
			fr.prevBlock, fr.block = predF, F
		}
		return true
	}
	return false
}

func condTerm(v value) (*Term, bool) {
	switch c := v.(type) {
	case bool:
		return mkBool(c), true
	case *Term:
		return c, c.isBool
	}
	return nil, false
}

package symgo

// Path exploration by prefix re-execution (DESIGN.md §2.4).  Every path carries a
// model of its path condition, so a new symbolic branch needs at most one solver
// query (for the side the model does not witness).

import (
	"fmt"
	"go/token"
	"go/types"
	"math/big"
	"os"
	"runtime"
	"sort"
	"strings"
	"sync"
	"time"

	"golang.org/x/tools/go/ssa"
)

type KnownFinding struct {
	ID       string `json:"id"`
	Property string `json:"property"`
	Harness  string `json:"harness"`
	Label    string `json:"label"`
	When     string `json:"when"` // SMT-LIB predicate over harness variable names (unprefixed)
	What     string `json:"what"`
	when     *Term
}

type Config struct {
	Workers      int
	Solver       SolverKind
	QueryTimeout time.Duration
	MaxPaths     int
	StepBudget   int64
	Known        []KnownFinding
	MaxCex       int // per label
	Trace        bool
	ForkStats    bool
	NoPortfolio  bool
	Labels       []string // assertion label prefixes this run checks (empty = all)
	Deadline     time.Time
}

type Violation struct {
	Label   string
	Model   Model
	Path    []int
	Comment string
}

type LabelStat struct {
	Checked   int // assert evaluations (paths reaching it)
	Queries   int
	Violated  int
	KnownHits int
}

type Result struct {
	Harness      string
	Paths        int
	Infeasible   int
	Decisions    int
	Instrs       int64
	Queries      int
	Sat, Unsat   int
	Unknown      int
	SolverTime   time.Duration
	Wall         time.Duration
	Violations   []Violation
	Labels       map[string]*LabelStat
	Covers       map[string]int
	Inconclusive []string
	KnownSeen    map[string]Model
	Funcs        map[string]int // interpreted functions (name -> calls)
	Externals    map[string]int // intercepted / native functions used
	Samples      []string
	MaxDepth     int
	Summaries    map[string]*Summary
	sumPending   map[string][]sumCase
	ForkSites    map[string]int
}

type pendingPath struct {
	prefix []int
	model  Model
}

type pathState struct {
	ex      *Explorer
	solver  *solver
	prefix  []int
	pos     int
	model   Model
	pc      []*Term
	pcs     []pcEntry
	ranges  []pcEntry
	vars    []*Term
	varSet  map[string]*Term
	steps   int64
	nfresh  int
	ended   bool
	newPend []pendingPath
	funcs   map[string]int
	exts    map[string]int
	dec     int
	sumOut  map[string][]sumCase
	trace   []string
	env     map[string]value
	choices map[string]int
	interp  *interpreter
	known   map[string]*Term
	notEq   map[string][]*big.Int
	ctx     *mergeCtx // non-nil inside a mergeable call: decisions are local
	seq         map[string]int // harness sequence counters (vxSeq), restored by merging
	tlo, thi    *big.Int // range of vxTime instants (nil = year 1..9999)
	speculating bool
	noIfConv    bool
	ifconv      int
}

// decision-string accessors: the global prefix, or the local one of a nested merge.
func (p *pathState) dsPrefix() *[]int {
	if p.ctx != nil {
		return &p.ctx.prefix
	}
	return &p.prefix
}
func (p *pathState) dsPos() *int {
	if p.ctx != nil {
		return &p.ctx.pos
	}
	return &p.pos
}
func (p *pathState) dsPending(pp pendingPath) {
	if p.ctx != nil {
		p.ctx.pending = append(p.ctx.pending, pp)
		return
	}
	p.newPend = append(p.newPend, pp)
}

func (p *pathState) recordChoice(name string, k int) {
	if p.choices == nil {
		p.choices = map[string]int{}
	}
	p.choices[name] = k
	p.model["choice:"+name] = bi(int64(k))
}

type Explorer struct {
	cfg     Config
	prog    *ssa.Program
	fn      *ssa.Function
	sizes   types.Sizes
	mu      sync.Mutex
	queue   []pendingPath
	active  int
	cond    *sync.Cond
	res     *Result
	stop    bool
	sums    map[string]*Summary
	stdPkgs sync.Map
	stdMu   sync.Mutex
}

type pathEnd struct{}              // path finished early (assume false / assert always fails)
type engineAbort struct{ reason string } // unsupported construct etc. => inconclusive

func abort(format string, args ...interface{}) {
	panic(engineAbort{fmt.Sprintf(format, args...)})
}

func (p *pathState) declare(name string, isBool bool, lo, hi *big.Int) *Term {
	if v, ok := p.varSet[name]; ok {
		return v
	}
	v := mkVar(name, isBool, lo, hi)
	p.varSet[name] = v
	p.vars = append(p.vars, v)
	if _, ok := p.model[name]; !ok {
		// extend the model: the new variable is unconstrained by the current pc
		val := bigZero
		if !isBool {
			if lo != nil && lo.Sign() > 0 {
				val = lo
			} else if hi != nil && hi.Sign() < 0 {
				val = hi
			}
		}
		p.model[name] = val
	}
	if !isBool {
		// range facts are not path constraints: they survive the state restore of merging
		vs := map[string]*Term{name: v}
		if lo != nil {
			p.ranges = append(p.ranges, pcEntry{newTerm(OpLe, true, mkConst(lo), v), vs})
		}
		if hi != nil {
			p.ranges = append(p.ranges, pcEntry{newTerm(OpLe, true, v, mkConst(hi)), vs})
		}
	}
	return v
}

func (p *pathState) fresh(prefix string, lo, hi *big.Int) *Term {
	p.nfresh++
	return p.declare(fmt.Sprintf("%s!%d", prefix, p.nfresh), false, lo, hi)
}

func (p *pathState) addPC(c *Term) {
	if b, ok := c.constBool(); ok && b {
		return
	}
	p.learn(c)
	p.pc = append(p.pc, c)
	vs := map[string]*Term{}
	termVars(c, map[*Term]bool{}, vs)
	p.pcs = append(p.pcs, pcEntry{c, vs})
}

// learn records literal facts (boolean variable decided, integer variable fixed) so that
// later conditions are simplified without a solver call.
func (p *pathState) learn(c *Term) {
	switch c.op {
	case OpVar:
		if c.isBool {
			p.known[c.name] = tTrue
		}
	case OpNot:
		if a := c.args[0]; a.op == OpVar && a.isBool {
			p.known[a.name] = tFalse
		} else if a.op == OpEq && !a.args[0].isBool && a.args[0].op == OpVar && a.args[1].op == OpConst {
			p.notEq[a.args[0].name] = append(p.notEq[a.args[0].name], a.args[1].c)
		} else if a.op == OpOr {
			p.learn(mkNot(a.args[0]))
			p.learn(mkNot(a.args[1]))
		}
	case OpAnd:
		p.learn(c.args[0])
		p.learn(c.args[1])
	case OpEq:
		if !c.args[0].isBool {
			if c.args[0].op == OpVar && c.args[1].op == OpConst {
				p.known[c.args[0].name] = c.args[1]
			} else if c.args[1].op == OpVar && c.args[0].op == OpConst {
				p.known[c.args[1].name] = c.args[0]
			}
		}
	}
}

// simp rewrites c under the literal facts learnt on this path.
func (p *pathState) simp(c *Term) *Term {
	if c.op == OpConst {
		return c
	}
	if len(p.known) > 0 {
		c = substTerm(c, p.known, map[*Term]*Term{})
	}
	if len(p.notEq) > 0 {
		c = p.simpNotEq(c, map[*Term]*Term{})
	}
	return c
}

// simpNotEq folds (= var const) to false when the path already excludes that value
// (boolean structure only; arithmetic sub-terms are left alone).
func (p *pathState) simpNotEq(c *Term, memo map[*Term]*Term) *Term {
	if !c.isBool {
		return c
	}
	if r, ok := memo[c]; ok {
		return r
	}
	r := c
	switch c.op {
	case OpEq:
		if !c.args[0].isBool && c.args[0].op == OpVar && c.args[1].op == OpConst {
			for _, k := range p.notEq[c.args[0].name] {
				if k.Cmp(c.args[1].c) == 0 {
					r = tFalse
				}
			}
		}
	case OpNot:
		r = mkNot(p.simpNotEq(c.args[0], memo))
	case OpAnd:
		r = mkAnd(p.simpNotEq(c.args[0], memo), p.simpNotEq(c.args[1], memo))
	case OpOr:
		r = mkOr(p.simpNotEq(c.args[0], memo), p.simpNotEq(c.args[1], memo))
	}
	memo[c] = r
	return r
}

func (p *pathState) evalBool(c *Term) (val bool, complete bool) {
	r, ok := evalTerm(c, p.model)
	return r.Sign() != 0, ok
}

// check decides pc && extra.  On sat the returned model is the current model
// overridden by the solver's assignment for the variables related to the query
// (the rest of the path condition is independent of them and stays satisfied).
func (p *pathState) check(extra ...*Term) (checkResult, Model) {
	all := make([]pcEntry, 0, len(p.ranges)+len(p.pcs))
	all = append(append(all, p.ranges...), p.pcs...)
	res, m, rel := p.solver.checkSliced(all, extra)
	if res != resSat {
		return res, nil
	}
	full := p.model.clone()
	for k, v := range m {
		full[k] = v
	}
	// related variables the solver left unconstrained keep their current value only
	// if declared; missing ones get defaults on evaluation
	_ = rel
	return res, full
}

// assume adds c to the path condition; ends the path if infeasible.
func (p *pathState) assume(c *Term) {
	c = p.simp(c)
	if p.ctx != nil {
		p.ctx.assumed = true
	}
	if b, ok := c.constBool(); ok {
		if !b {
			panic(pathEnd{})
		}
		return
	}
	if v, complete := p.evalBool(c); complete && v {
		p.addPC(c)
		return
	}
	res, m := p.check(c)
	switch res {
	case resSat:
		p.model = m
		p.addPC(c)
	case resUnsat:
		panic(pathEnd{})
	default:
		p.ex.inconclusive("solver unknown on assume")
		panic(pathEnd{})
	}
}

// branch decides a symbolic condition, forking when both sides are feasible.
func (p *pathState) branch(c *Term) bool {
	if b, ok := c.constBool(); ok {
		return b
	}
	c = p.simp(c)
	if b, ok := c.constBool(); ok {
		return b
	}
	if p.speculating && p.ctx == nil {
		panic(specAbort{})
	}
	prefix, pos := p.dsPrefix(), p.dsPos()
	if *pos < len(*prefix) {
		d := (*prefix)[*pos] != 0
		*pos++
		if d {
			p.addPC(c)
		} else {
			p.addPC(mkNot(c))
		}
		return d
	}
	p.dec++
	v, complete := p.evalBool(c)
	var other Model
	otherOK := false
	if bv := boolVarOf(c); bv != nil && complete && !p.varInPC(bv.name) {
		// an unconstrained boolean: both sides feasible, flip it in the model
		other = p.model.clone()
		if cur, ok := other[bv.name]; ok && cur.Sign() != 0 {
			other[bv.name] = bigZero
		} else {
			other[bv.name] = bigOne
		}
		otherOK = true
	} else if complete {
		oc := c
		if v {
			oc = mkNot(c)
		}
		res, m := p.check(oc)
		if res == resUnsat && os.Getenv("VX_LOGUNSAT") != "" {
			fmt.Fprintf(os.Stderr, "UNSAT-OTHER size=%d %s%s\n", c.size, c.String(), p.interp.where())
		}
		switch res {
		case resSat:
			other, otherOK = m, true
		case resUnknown:
			p.ex.inconclusive("solver unknown on branch feasibility")
		}
	} else {
		rt, mt := p.check(c)
		rf, mf := p.check(mkNot(c))
		if rt == resUnknown || rf == resUnknown {
			p.ex.inconclusive("solver unknown on branch feasibility")
		}
		switch {
		case rt == resSat && rf == resSat:
			v, p.model, other, otherOK = true, mt, mf, true
		case rt == resSat:
			v, p.model = true, mt
		case rf == resSat:
			v, p.model = false, mf
		default:
			panic(pathEnd{})
		}
	}
	if otherOK {
		if p.ctx == nil && p.ex.cfg.ForkStats {
			site := "?"
			if p.interp != nil && p.interp.cur != nil {
				site = ""
				for f, n := p.interp.cur, 0; f != nil && n < 4; f, n = f.caller, n+1 {
					site += f.fn.Name()
					if f.pos.IsValid() {
						ps := p.ex.prog.Fset.Position(f.pos)
						site += fmt.Sprintf(":%d", ps.Line)
					}
					site += " < "
				}
			}
			p.ex.mu.Lock()
			p.ex.res.ForkSites[site]++
			p.ex.mu.Unlock()
		}
		alt := make([]int, *pos+1)
		copy(alt, (*prefix)[:*pos])
		if v {
			alt[*pos] = 0
		} else {
			alt[*pos] = 1
		}
		p.dsPending(pendingPath{alt, other})
	}
	d := 0
	if v {
		d = 1
	}
	*prefix = append((*prefix)[:*pos], d)
	*pos++
	if v {
		p.addPC(c)
	} else {
		p.addPC(mkNot(c))
	}
	return v
}

func boolVarOf(c *Term) *Term {
	if c.op == OpNot {
		c = c.args[0]
	}
	if c.op == OpVar && c.isBool {
		return c
	}
	return nil
}

func (p *pathState) varInPC(name string) bool {
	for _, e := range p.pcs {
		if _, ok := e.vars[name]; ok {
			return true
		}
	}
	return false
}

// choice forks n ways (no constraint involved): scheduler decisions, vxChoice.
func (p *pathState) choice(n int) int {
	if n <= 1 {
		return 0
	}
	prefix, pos := p.dsPrefix(), p.dsPos()
	if *pos < len(*prefix) {
		d := (*prefix)[*pos]
		*pos++
		return d
	}
	p.dec++
	for k := 1; k < n; k++ {
		alt := make([]int, *pos+1)
		copy(alt, (*prefix)[:*pos])
		alt[*pos] = k
		p.dsPending(pendingPath{alt, p.model.clone()})
	}
	*prefix = append((*prefix)[:*pos], 0)
	*pos++
	return 0
}

func (p *pathState) assertCond(cond *Term, label string) {
	ex := p.ex
	if len(ex.cfg.Labels) > 0 {
		match := strings.HasPrefix(label, "engine/")
		for _, pre := range ex.cfg.Labels {
			if strings.HasPrefix(label, pre) {
				match = true
			}
		}
		if !match {
			return // another property's assertion: not this check's concern
		}
	}
	ex.mu.Lock()
	ls := ex.res.Labels[label]
	if ls == nil {
		ls = &LabelStat{}
		ex.res.Labels[label] = ls
	}
	ls.Checked++
	var known []*KnownFinding
	for i := range ex.cfg.Known {
		k := &ex.cfg.Known[i]
		if k.Label == label && (k.Harness == "" || k.Harness == ex.res.Harness) {
			known = append(known, k)
		}
	}
	ex.mu.Unlock()
	cond = p.simp(cond)
	if b, ok := cond.constBool(); ok && b {
		return
	}
	notCond := mkNot(cond)
	notK := tTrue
	for _, k := range known {
		notK = mkAnd(notK, mkNot(k.when))
	}
	q := mkAnd(notCond, notK)
	var cex Model
	found := false
	if v, complete := p.evalBool(q); complete && v {
		cex, found = p.model, true
	} else if b, ok := q.constBool(); !ok || b {
		// a conjunction is refuted conjunct by conjunct: not(a and b) is satisfiable iff
		// not(a) or not(b) is; the queries are much smaller (independent slices)
		parts := flattenAnd(cond, 1024)
		for _, part := range parts {
			if b, ok := part.constBool(); ok && b {
				continue
			}
			res, m := p.check(mkAnd(mkNot(part), notK))
			ex.mu.Lock()
			ls.Queries++
			ex.mu.Unlock()
			if res == resSat {
				cex, found = m, true
				break
			}
			if res == resUnknown {
				ex.inconclusive("solver unknown on assertion " + label)
			}
		}
	}
	if found {
		ex.mu.Lock()
		ls.Violated++
		if n := countLabel(ex.res.Violations, label); n < ex.cfg.MaxCex {
			ex.res.Violations = append(ex.res.Violations, Violation{Label: label, Model: cex.clone(), Path: append([]int(nil), p.prefix[:p.pos]...)})
		}
		ex.mu.Unlock()
	}
	for _, k := range known {
		ex.mu.Lock()
		_, seen := ex.res.KnownSeen[k.ID]
		ex.mu.Unlock()
		if seen {
			continue
		}
		res, m := p.check(notCond, k.when)
		if res == resSat {
			ex.mu.Lock()
			ex.res.KnownSeen[k.ID] = m
			ls.KnownHits++
			ex.mu.Unlock()
		}
	}
	// continue the path under cond
	p.assume(cond)
}

// flattenAnd returns the conjuncts of c (at most max; else c itself).
func flattenAnd(c *Term, max int) []*Term {
	var out []*Term
	var rec func(t *Term) bool
	rec = func(t *Term) bool {
		if t.op == OpAnd {
			return rec(t.args[0]) && rec(t.args[1])
		}
		out = append(out, t)
		return len(out) <= max
	}
	if !rec(c) {
		return []*Term{c}
	}
	return out
}

func countLabel(vs []Violation, label string) int {
	n := 0
	for _, v := range vs {
		if v.Label == label {
			n++
		}
	}
	return n
}

func (ex *Explorer) inconclusive(reason string) {
	ex.mu.Lock()
	defer ex.mu.Unlock()
	for _, r := range ex.res.Inconclusive {
		if r == reason {
			return
		}
	}
	if len(ex.res.Inconclusive) < 50 {
		ex.res.Inconclusive = append(ex.res.Inconclusive, reason)
	}
}

// NewExplorer prepares an exploration of fn.
func NewExplorer(prog *ssa.Program, fn *ssa.Function, cfg Config) *Explorer {
	if cfg.Workers <= 0 {
		cfg.Workers = runtime.NumCPU()
	}
	if cfg.QueryTimeout == 0 {
		cfg.QueryTimeout = 20 * time.Second
	}
	if cfg.MaxPaths == 0 {
		cfg.MaxPaths = 600000
	}
	if cfg.StepBudget == 0 {
		cfg.StepBudget = 20_000_000
	}
	if cfg.MaxCex == 0 {
		cfg.MaxCex = 6 // replays stop at the first natively confirmed one per label
	}
	for i := range cfg.Known {
		t, err := ParsePredicate(cfg.Known[i].When)
		if err != nil {
			panic(fmt.Sprintf("known finding %s: bad predicate: %v", cfg.Known[i].ID, err))
		}
		cfg.Known[i].when = t
	}
	ex := &Explorer{cfg: cfg, prog: prog, fn: fn, sizes: types.SizesFor("gc", "amd64")}
	ex.cond = sync.NewCond(&ex.mu)
	ex.res = &Result{Harness: fn.Name(), Labels: map[string]*LabelStat{}, Covers: map[string]int{}, KnownSeen: map[string]Model{},
		Funcs: map[string]int{}, Externals: map[string]int{}, Summaries: map[string]*Summary{}, sumPending: map[string][]sumCase{}, ForkSites: map[string]int{}}
	return ex
}

func (ex *Explorer) SetSummaries(s map[string]*Summary) { ex.sums = s }

func (ex *Explorer) Run() *Result {
	t0 := time.Now()
	ex.queue = []pendingPath{{nil, Model{}}}
	var wg sync.WaitGroup
	doneCh := make(chan struct{})
	if os.Getenv("VX_PROGRESS") != "" {
		go func() {
			tk := time.NewTicker(5 * time.Second)
			defer tk.Stop()
			for {
				select {
				case <-doneCh:
					return
				case <-tk.C:
					ex.mu.Lock()
					fmt.Fprintf(os.Stderr, "[progress %s] paths=%d infeasible=%d queue=%d active=%d decisions=%d viol=%d t=%v\n", ex.res.Harness, ex.res.Paths, ex.res.Infeasible, len(ex.queue), ex.active, ex.res.Decisions, len(ex.res.Violations), time.Since(t0).Round(time.Second))
					ex.mu.Unlock()
				}
			}
		}()
	}
	solvers := make([]*solver, ex.cfg.Workers)
	for w := 0; w < ex.cfg.Workers; w++ {
		wg.Add(1)
		go func(w int) {
			defer wg.Done()
			primaryT := ex.cfg.QueryTimeout
			if ex.cfg.Solver == SolverZ3New && !ex.cfg.NoPortfolio {
				primaryT = 3 * time.Second // fall back to cvc5 early
			}
			s, err := newSolver(ex.cfg.Solver, primaryT)
			if err != nil {
				ex.inconclusive("cannot start solver: " + err.Error())
				return
			}
			if ex.cfg.Solver == SolverZ3New && !ex.cfg.NoPortfolio {
				if alt, err := newSolver(SolverCVC5, ex.cfg.QueryTimeout); err == nil {
					s.alt = alt
				}
			}
			solvers[w] = s
			defer s.close()
			for {
				ex.mu.Lock()
				for len(ex.queue) == 0 && ex.active > 0 && !ex.stop {
					ex.cond.Wait()
				}
				if ex.stop || (len(ex.queue) == 0 && ex.active == 0) {
					ex.mu.Unlock()
					ex.cond.Broadcast()
					return
				}
				item := ex.queue[len(ex.queue)-1]
				ex.queue = ex.queue[:len(ex.queue)-1]
				ex.active++
				ex.mu.Unlock()

				ex.runPath(s, item)

				ex.mu.Lock()
				ex.active--
				if ex.res.Paths+ex.res.Infeasible >= ex.cfg.MaxPaths && len(ex.queue) > 0 && !ex.stop {
					ex.stop = true
					ex.res.Inconclusive = append(ex.res.Inconclusive, fmt.Sprintf("path limit %d reached with %d prefixes pending", ex.cfg.MaxPaths, len(ex.queue)))
				}
				if !ex.cfg.Deadline.IsZero() && time.Now().After(ex.cfg.Deadline) && len(ex.queue) > 0 && !ex.stop {
					ex.stop = true
					ex.res.Inconclusive = append(ex.res.Inconclusive, fmt.Sprintf("deadline reached with %d prefixes pending", len(ex.queue)))
				}
				ex.mu.Unlock()
				ex.cond.Broadcast()
			}
		}(w)
	}
	wg.Wait()
	close(doneCh)
	for _, s := range solvers {
		if s != nil {
			ex.res.Queries += s.Queries
			ex.res.Sat += s.Sat
			ex.res.Unsat += s.Unsat
			ex.res.Unknown += s.Unknown
			ex.res.SolverTime += s.Time
		}
	}
	ex.res.Wall = time.Since(t0)
	ex.finishSummaries()
	sort.Strings(ex.res.Inconclusive)
	return ex.res
}

func (ex *Explorer) runPath(s *solver, item pendingPath) {
	s.reset()
	p := &pathState{ex: ex, solver: s, prefix: item.prefix, model: item.model, varSet: map[string]*Term{},
		noIfConv: os.Getenv("VX_NOIFCONV") != "", seq: map[string]int{}, funcs: map[string]int{}, exts: map[string]int{}, sumOut: map[string][]sumCase{}, env: map[string]value{}, known: map[string]*Term{}, notEq: map[string][]*big.Int{}}
	if p.model == nil {
		p.model = Model{}
	}
	i := newInterpreter(ex, p)
	p.interp = i
	completed := false
	func() {
		defer func() {
			if r := recover(); r != nil {
				switch r := r.(type) {
				case pathEnd:
					p.ended = true
				case engineAbort:
					if strings.Contains(r.reason, " [at ") {
						ex.inconclusive("unsupported: " + r.reason)
					} else {
						ex.inconclusive("unsupported: " + r.reason + i.where())
					}
				case runtimeError:
					ex.inconclusive("uncaught target runtime error: " + r.Error() + r.where)
				case targetPanic:
					// an uncaught panic of the code under test at top level
					ex.inconclusive("uncaught target panic: " + toString(r.v) + i.where())
				case runtime.Error:
					buf := make([]byte, 6000)
					n := runtime.Stack(buf, false)
					ex.inconclusive("engine runtime error: " + r.Error() + i.where() + "\n" + trimStack(string(buf[:n])))
				default:
					ex.inconclusive(fmt.Sprintf("engine panic: %v%s", r, i.where()))
				}
			}
		}()
		i.runMain(ex.fn)
		completed = true
	}()
	ex.mu.Lock()
	defer ex.mu.Unlock()
	if completed {
		ex.res.Paths++
		for k, v := range p.sumOut {
			ex.res.sumPending[k] = append(ex.res.sumPending[k], v...)
		}
		if len(ex.res.Samples) < 3 {
			ex.res.Samples = append(ex.res.Samples, p.describe())
		}
	} else {
		ex.res.Infeasible++
	}
	ex.res.Decisions += p.dec
	ex.res.Instrs += p.steps
	if p.pos > ex.res.MaxDepth {
		ex.res.MaxDepth = p.pos
	}
	for k, v := range p.funcs {
		ex.res.Funcs[k] += v
	}
	for k, v := range p.exts {
		ex.res.Externals[k] += v
	}
	ex.queue = append(ex.queue, p.newPend...)
}

func trimStack(s string) string {
	lines := strings.Split(s, "\n")
	var out []string
	for _, l := range lines {
		if strings.Contains(l, "symgo") && strings.Contains(l, ".go:") && !strings.Contains(l, "interp.go:5") {
			out = append(out, strings.TrimSpace(l))
		}
		if len(out) > 12 {
			break
		}
	}
	return strings.Join(out, " <- ")
}

func (p *pathState) describe() string {
	var sb strings.Builder
	fmt.Fprintf(&sb, "decisions=%v model={", p.prefix[:p.pos])
	names := make([]string, 0, len(p.model))
	for k := range p.model {
		if !strings.Contains(k, "!") {
			names = append(names, k)
		}
	}
	sort.Strings(names)
	for i, k := range names {
		if i > 12 {
			sb.WriteString(" ...")
			break
		}
		fmt.Fprintf(&sb, " %s=%s", k, p.model[k])
	}
	sb.WriteString(" }")
	return sb.String()
}

func debugf(format string, args ...interface{}) {
	if os.Getenv("VX_DEBUG") != "" {
		fmt.Fprintf(os.Stderr, format+"\n", args...)
	}
}

var _ = token.NoPos

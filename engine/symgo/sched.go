package symgo

// Deterministic cooperative scheduler (DESIGN.md §2.8).  Interpreted goroutines are
// real goroutines passing a baton; exactly one runs at a time.  A switch happens only
// when the running goroutine blocks, exits, or yields explicitly (vxYield, called by
// the harness' store/origin stubs).  Which runnable goroutine continues is a path
// decision (pathState.choice), so schedules are explored like branches.

import (
	"fmt"
	"os"
	"go/token"
	"go/types"

	"golang.org/x/tools/go/ssa"
)

type goexit struct{}

type goroutine struct {
	id    int
	wake  chan struct{}
	done  bool
	ready func() bool // nil = running
	main  bool
	frame *frame
	idleWaiter bool // blocked in vxIdleWait (does not keep others from being "idle")
}

type sendItem struct {
	v     value
	taken bool
}

type gochan struct {
	cap         int
	buf         []value
	closed      bool
	sendq       []*sendItem
	recvWaiting int
	elem        types.Type
}

type scheduler struct {
	i        *interpreter
	gs       []*goroutine
	cur      *goroutine
	fatal    interface{}
	killing  bool
	ack      chan struct{}
	bgPanics []value
	spawned  int
	switches int
	inRunAll bool
	preemptBound int // -1: unbounded
	preemptions  int
}

func newScheduler(i *interpreter) *scheduler {
	return &scheduler{i: i, ack: make(chan struct{}), preemptBound: -1}
}

func (s *scheduler) runMain(f func()) {
	g := &goroutine{id: 0, wake: make(chan struct{}), main: true}
	s.gs = append(s.gs, g)
	s.cur = g
	defer s.killAll()
	f()
}

func (s *scheduler) killAll() {
	s.killing = true
	for _, g := range s.gs {
		if g.main || g.done {
			continue
		}
		g.wake <- struct{}{}
		<-s.ack
	}
}

func (s *scheduler) spawn(i *interpreter, pos token.Pos, fn value, args []value) {
	g := &goroutine{id: len(s.gs), wake: make(chan struct{}), ready: func() bool { return true }}
	s.gs = append(s.gs, g)
	s.spawned++
	go func() {
		<-g.wake
		if s.killing {
			g.done = true
			s.ack <- struct{}{}
			return
		}
		defer func() {
			r := recover()
			g.done = true
			if s.killing {
				s.ack <- struct{}{}
				return
			}
			switch r := r.(type) {
			case nil:
			case goexit:
			case targetPanic:
				s.bgPanics = append(s.bgPanics, r.v)
				debugf("background goroutine panicked: %s", toString(r.v))
			case runtimeError:
				s.bgPanics = append(s.bgPanics, r.Error())
				debugf("background goroutine runtime error: %s%s", r.Error(), r.where)
			default:
				s.fatal = r
			}
			s.exit(g)
		}()
		i.cur = nil
		call(i, nil, pos, fn, args)
	}()
}

// runnable returns goroutines that can make progress, in id order.
func (s *scheduler) runnable() []*goroutine {
	var rs []*goroutine
	for _, g := range s.gs {
		if !g.done && g.ready != nil && g.ready() {
			rs = append(rs, g)
		}
	}
	return rs
}

// exit hands the baton to another goroutine when g terminates.
func (s *scheduler) exit(g *goroutine) {
	var next *goroutine
	if s.fatal != nil {
		next = s.gs[0]
	} else {
		rs := s.runnable()
		if len(rs) == 0 {
			// everyone else is blocked: wake main to report the deadlock
			s.fatal = deadlock{}
			next = s.gs[0]
		} else {
			next = rs[s.i.p.choice(len(rs))]
		}
	}
	s.cur = next
	next.wake <- struct{}{}
}

type deadlock struct{}

// yield blocks the current goroutine until ready() holds and lets others run.
func (s *scheduler) yield(fr *frame, ready func() bool) {
	g := s.cur
	g.ready = ready
	if fr != nil {
		g.frame = fr
	}
	rs := s.runnable()
	if len(rs) == 0 {
		g.ready = nil
		s.reportDeadlock()
	}
	next := rs[s.i.p.choice(len(rs))]
	if next == g {
		g.ready = nil
		return
	}
	s.switches++
	saved := s.i.cur
	s.cur = next
	next.wake <- struct{}{}
	<-g.wake
	s.i.cur = saved
	if s.killing {
		panic(goexit{})
	}
	if s.fatal != nil && g.main {
		f := s.fatal
		s.fatal = nil
		if _, ok := f.(deadlock); ok {
			g.ready = nil
			s.reportDeadlock()
		}
		panic(f)
	}
	g.ready = nil
}

// yieldToOthers hands the baton to some other runnable goroutine (the caller stays
// runnable and continues when it is chosen again).
func (s *scheduler) yieldToOthers(fr *frame) {
	g := s.cur
	var rs []*goroutine
	for _, r := range s.runnable() {
		if r != g {
			rs = append(rs, r)
		}
	}
	if len(rs) == 0 {
		return
	}
	next := rs[s.i.p.choice(len(rs))]
	g.ready = always
	s.switches++
	saved := s.i.cur
	s.cur = next
	next.wake <- struct{}{}
	<-g.wake
	s.i.cur = saved
	if s.killing {
		panic(goexit{})
	}
	if s.fatal != nil && g.main {
		f := s.fatal
		s.fatal = nil
		if _, ok := f.(deadlock); ok {
			// the others are all blocked: fine for vxRunAll, main simply continues
			g.ready = nil
			return
		}
		panic(f)
	}
	g.ready = nil
}

func (s *scheduler) reportDeadlock() {
	if os.Getenv("VX_DEBUG") != "" {
		for _, g := range s.gs {
			w := ""
			if g.frame != nil {
				saved := s.i.cur
				s.i.cur = g.frame
				w = s.i.where()
				s.i.cur = saved
			}
			fmt.Fprintf(os.Stderr, "DEADLOCK g%d main=%v done=%v cur=%v blocked%s\n", g.id, g.main, g.done, g == s.cur, w)
		}
	}
	// recorded as a failed assertion so that harnesses claiming "never hangs" see it
	s.i.p.assertCond(tFalse, "engine/no-deadlock")
	panic(pathEnd{})
}

func always() bool { return true }
func never() bool  { return false }

func (s *scheduler) send(fr *frame, ch *gochan, v value) {
	if ch == nil {
		s.yield(fr, never)
	}
	if ch.closed {
		panic(runtimeErrorf("send on closed channel"))
	}
	if ch.cap > 0 {
		if len(ch.buf) >= ch.cap {
			s.yield(fr, func() bool { return len(ch.buf) < ch.cap || ch.closed })
			if ch.closed {
				panic(runtimeErrorf("send on closed channel"))
			}
		}
		ch.buf = append(ch.buf, v)
		return
	}
	it := &sendItem{v: v}
	ch.sendq = append(ch.sendq, it)
	s.yield(fr, func() bool { return it.taken || ch.closed })
	if !it.taken {
		panic(runtimeErrorf("send on closed channel"))
	}
}

func (ch *gochan) canRecv() bool {
	return len(ch.buf) > 0 || len(ch.sendq) > 0 || ch.closed
}

func (ch *gochan) take() (value, bool) {
	if len(ch.buf) > 0 {
		v := ch.buf[0]
		ch.buf = ch.buf[1:]
		return v, true
	}
	if len(ch.sendq) > 0 {
		it := ch.sendq[0]
		ch.sendq = ch.sendq[1:]
		it.taken = true
		return it.v, true
	}
	return nil, false // closed
}

func (s *scheduler) recv(fr *frame, ch *gochan) (value, bool) {
	if ch == nil {
		s.yield(fr, never)
	}
	if !ch.canRecv() {
		ch.recvWaiting++
		s.yield(fr, ch.canRecv)
		ch.recvWaiting--
	}
	return ch.take()
}

func (s *scheduler) closeChan(fr *frame, ch *gochan) {
	if ch == nil {
		panic(runtimeErrorf("close of nil channel"))
	}
	if ch.closed {
		panic(runtimeErrorf("close of closed channel"))
	}
	ch.closed = true
}

func (s *scheduler) selectOp(fr *frame, instr *ssa.Select) value {
	type cs struct {
		ch   *gochan
		send bool
		v    value
	}
	var cases []cs
	for _, st := range instr.States {
		c := cs{ch: fr.get(st.Chan).(*gochan), send: st.Dir == types.SendOnly}
		if c.send {
			c.v = fr.get(st.Send)
		}
		cases = append(cases, c)
	}
	readyCases := func() []int {
		var r []int
		for k, c := range cases {
			if c.ch == nil {
				continue
			}
			if c.send {
				if c.ch.closed || (c.ch.cap > 0 && len(c.ch.buf) < c.ch.cap) || (c.ch.cap == 0 && c.ch.recvWaiting > 0) {
					r = append(r, k)
				}
			} else if c.ch.canRecv() {
				r = append(r, k)
			}
		}
		return r
	}
	rc := readyCases()
	if len(rc) == 0 {
		if !instr.Blocking {
			return s.selectResult(instr, -1, nil, false)
		}
		for _, c := range cases {
			if c.ch != nil && !c.send {
				c.ch.recvWaiting++
			}
		}
		s.yield(fr, func() bool { return len(readyCases()) > 0 })
		for _, c := range cases {
			if c.ch != nil && !c.send {
				c.ch.recvWaiting--
			}
		}
		rc = readyCases()
	}
	k := rc[s.i.p.choice(len(rc))]
	c := cases[k]
	if c.send {
		if c.ch.closed {
			panic(runtimeErrorf("send on closed channel"))
		}
		if c.ch.cap > 0 {
			c.ch.buf = append(c.ch.buf, c.v)
		} else {
			// a receiver is waiting: hand the value over through the queue
			it := &sendItem{v: c.v}
			c.ch.sendq = append(c.ch.sendq, it)
		}
		return s.selectResult(instr, k, nil, false)
	}
	v, ok := c.ch.take()
	return s.selectResult(instr, k, v, ok)
}

func (s *scheduler) selectResult(instr *ssa.Select, chosen int, recv value, recvOk bool) value {
	r := tuple{chosen, recvOk}
	for i, st := range instr.States {
		if st.Dir == types.RecvOnly {
			var v value
			if i == chosen && recvOk {
				v = recv
			} else {
				v = zero(st.Chan.Type().Underlying().(*types.Chan).Elem())
			}
			r = append(r, v)
		}
	}
	return r
}

func (s *scheduler) describe() string {
	return fmt.Sprintf("goroutines=%d switches=%d", len(s.gs), s.switches)
}

package symgo

import "unicode/utf8"

// encoding/json writes strings as valid UTF-8: every byte that is not part of a valid
// UTF-8 sequence is replaced by U+FFFD (EF BF BD).  The A-JSON round trip (serial.go)
// is therefore exact only for valid UTF-8 strings; jsonCoerce applies the replacement to
// every string inside a value that is marshalled, deciding validity of symbolic bytes
// with the path's solver (each decision is a fork).

func (fr *frame) byteIn(b value, lo, hi uint8) bool {
	if c, ok := b.(uint8); ok {
		return lo <= c && c <= hi
	}
	t := toTerm(b)
	return fr.decide(mkAnd(mkLe(mkConstI(int64(lo)), t), mkLe(t, mkConstI(int64(hi)))))
}

func (fr *frame) jsonCoerceBytes(bs []value) []value {
	out, _ := fr.utf8Scan(bs)
	return out
}

// utf8Scan returns bs with every invalid byte replaced by U+FFFD, and whether bs was
// valid UTF-8 (nothing replaced).
func (fr *frame) utf8Scan(bs []value) ([]value, bool) {
	allValid := true
	out := make([]value, 0, len(bs))
	n := len(bs)
	for i := 0; i < n; {
		b := bs[i]
		if fr.byteIn(b, 0x00, 0x7F) {
			out = append(out, b)
			i++
			continue
		}
		need, lo2, hi2 := 0, uint8(0x80), uint8(0xBF)
		switch {
		case i+1 >= n: // no room for a continuation byte: invalid whatever the lead is
		case fr.byteIn(b, 0xC2, 0xDF):
			need = 1
		case fr.byteIn(b, 0xE0, 0xE0):
			need, lo2 = 2, 0xA0
		case fr.byteIn(b, 0xE1, 0xEC), fr.byteIn(b, 0xEE, 0xEF):
			need = 2
		case fr.byteIn(b, 0xED, 0xED):
			need, hi2 = 2, 0x9F
		case fr.byteIn(b, 0xF0, 0xF0):
			need, lo2 = 3, 0x90
		case fr.byteIn(b, 0xF1, 0xF3):
			need = 3
		case fr.byteIn(b, 0xF4, 0xF4):
			need, hi2 = 3, 0x8F
		}
		valid := need > 0 && i+need < n
		if valid {
			for k := 1; k <= need && valid; k++ {
				lo, hi := uint8(0x80), uint8(0xBF)
				if k == 1 {
					lo, hi = lo2, hi2
				}
				valid = fr.byteIn(bs[i+k], lo, hi)
			}
		}
		if valid {
			out = append(out, bs[i:i+need+1]...)
			i += need + 1
		} else {
			out = append(out, uint8(0xEF), uint8(0xBF), uint8(0xBD))
			allValid = false
			i++
		}
	}
	return out, allValid
}

func init() {
	externals["unicode/utf8.ValidString"] = func(fr *frame, a []value) (value, bool) {
		if s, ok := a[0].(string); ok {
			return utf8.ValidString(s), true
		}
		if h, ok := a[0].(shash); ok { // the hash part is decimal digits
			if ps, ok := h.prefix.(string); ok {
				return utf8.ValidString(ps), true
			}
			_, ok := fr.utf8Scan(strBytes(h.prefix))
			return ok, true
		}
		_, ok := fr.utf8Scan(strBytes(a[0]))
		return ok, true
	}
	externals["unicode/utf8.Valid"] = func(fr *frame, a []value) (value, bool) {
		bs, _ := a[0].([]value)
		_, ok := fr.utf8Scan(bs)
		return ok, true
	}
}

// jsonCoerce rewrites every string reachable from v (a private deep copy).
func (fr *frame) jsonCoerce(v value, seen map[*value]bool) value {
	switch x := v.(type) {
	case string:
		return mkSstr(fr.jsonCoerceBytes(strBytes(x)))
	case sstr:
		return mkSstr(fr.jsonCoerceBytes(x.b))
	case shash:
		x.prefix = fr.jsonCoerce(x.prefix, seen)
		return x
	case *value:
		if x == nil || seen[x] {
			return x
		}
		seen[x] = true
		*x = fr.jsonCoerce(*x, seen)
		return x
	case structure:
		for i := range x {
			x[i] = fr.jsonCoerce(x[i], seen)
		}
		return x
	case array:
		for i := range x {
			x[i] = fr.jsonCoerce(x[i], seen)
		}
		return x
	case []value:
		for i := range x {
			x[i] = fr.jsonCoerce(x[i], seen)
		}
		return x
	case iface:
		return iface{x.t, fr.jsonCoerce(x.v, seen)}
	case *omap:
		if x == nil {
			return x
		}
		m := newOmap(x.kt)
		for _, e := range x.entries {
			if !e.dead {
				m.insert(fr.jsonCoerce(e.key, seen), fr.jsonCoerce(e.val, seen), func(c *Term) bool { return fr.decide(c) })
			}
		}
		return m
	}
	return v
}

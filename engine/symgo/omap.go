package symgo

// omap is the interpreter's representation of every Go map: insertion-ordered
// (so that prefix re-execution is deterministic) and able to hold keys with
// symbolic components (symbolic strings / integers).  Key comparison against a
// symbolic key yields an SMT term; the interpreter forks on it lazily at lookup
// time (DESIGN.md §2.2 "symmap").

import (
	"go/types"
)

type oentry struct {
	key, val value
	dead     bool
}

type omap struct {
	kt      types.Type
	entries []*oentry
	idx     map[value]*oentry // concrete, Go-comparable keys only
	live    int
	nsym    int // entries with symbolic keys
}

func newOmap(kt types.Type) *omap {
	return &omap{kt: kt, idx: map[value]*oentry{}}
}

// goComparableKey reports whether k can index a native Go map consistently with
// the interpreter's equality (basic concrete values, pointers, channels).
func goComparableKey(k value) bool {
	switch k.(type) {
	case bool, int, int8, int16, int32, int64, uint, uint8, uint16, uint32, uint64, uintptr,
		float32, float64, complex64, complex128, string, *value, *gochan:
		return true
	}
	return false
}

// find returns the entry for key k.  Symbolic comparisons are decided through
// decide (which may fork the path).
func (m *omap) find(k value, decide func(*Term) bool) *oentry {
	if m == nil {
		return nil
	}
	if goComparableKey(k) {
		if e, ok := m.idx[k]; ok {
			return e
		}
		if m.nsym == 0 {
			return nil
		}
		for _, e := range m.entries {
			if e.dead || goComparableKey(e.key) {
				continue
			}
			if symEquals(m.kt, e.key, k, decide) {
				return e
			}
		}
		return nil
	}
	for _, e := range m.entries {
		if e.dead {
			continue
		}
		if symEquals(m.kt, e.key, k, decide) {
			return e
		}
	}
	return nil
}

func symEquals(t types.Type, x, y value, decide func(*Term) bool) bool {
	r := equalsV(t, x, y)
	switch r := r.(type) {
	case bool:
		return r
	case *Term:
		return decide(r)
	}
	panic("symEquals")
}

func (m *omap) lookup(k value, decide func(*Term) bool) (value, bool) {
	if e := m.find(k, decide); e != nil {
		return e.val, true
	}
	return nil, false
}

func (m *omap) insert(k, v value, decide func(*Term) bool) {
	if e := m.find(k, decide); e != nil {
		e.val = v
		return
	}
	e := &oentry{key: k, val: v}
	m.entries = append(m.entries, e)
	m.live++
	if goComparableKey(k) {
		m.idx[k] = e
	} else {
		m.nsym++
	}
}

func (m *omap) delete(k value, decide func(*Term) bool) {
	if m == nil {
		return
	}
	if e := m.find(k, decide); e != nil {
		e.dead = true
		m.live--
		if goComparableKey(e.key) {
			delete(m.idx, e.key)
		} else {
			m.nsym--
		}
	}
}

func (m *omap) len() int {
	if m == nil {
		return 0
	}
	return m.live
}

type omapIter struct {
	m *omap
	i int
}

func (it *omapIter) next() tuple {
	if it.m != nil {
		for it.i < len(it.m.entries) {
			e := it.m.entries[it.i]
			it.i++
			if !e.dead {
				return tuple{true, e.key, e.val}
			}
		}
	}
	return tuple{false, nil, nil}
}

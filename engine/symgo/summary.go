package symgo

// Function summaries derived from the real code (DESIGN.md §2.5 item 4, revised):
// a harness function VxSum_<x> calls the real function on fresh formals a0,a1,...
// and hands the result to vxSummary(name, results...).  All paths are explored and
// merged into one ite-term per result; at call sites whose actual arguments fit the
// formals' ranges the merged term is instantiated by substitution.  The summary IS
// the interpreted real code, so nothing is trusted.

import (
	"fmt"
	"math/big"
	"sort"
	"strings"
)

type sumCase struct {
	pc  *Term
	res []value // scalars: *Term / concrete ints / bools; structures allowed (time.Time)
}

type Summary struct {
	Name    string
	Formals map[string]*Term // formal variable name -> var term (with range)
	Result  []value          // merged results
	Cases   int
	Bad     string // non-empty: unusable
}

const unixToInternal int64 = (1969*365 + 1969/4 - 1969/100 + 1969/400) * 86400

func (p *pathState) recordSummary(name string, res []value) {
	pc := tTrue
	for _, c := range p.pc {
		pc = mkAnd(pc, c)
	}
	p.sumOut[name] = append(p.sumOut[name], sumCase{pc, res})
	// remember formals
	p.ex.mu.Lock()
	s := p.ex.res.Summaries[name]
	if s == nil {
		s = &Summary{Name: name, Formals: map[string]*Term{}}
		p.ex.res.Summaries[name] = s
	}
	for _, v := range p.vars {
		if strings.HasPrefix(v.name, "a") && !strings.Contains(v.name, "!") {
			if _, ok := s.Formals[v.name]; !ok {
				s.Formals[v.name] = v
			}
		}
	}
	p.ex.mu.Unlock()
}

func (ex *Explorer) finishSummaries() {
	for name, cases := range ex.res.sumPending {
		s := ex.res.Summaries[name]
		s.Cases = len(cases)
		if len(ex.res.Inconclusive) > 0 {
			s.Bad = "summary exploration inconclusive: " + ex.res.Inconclusive[0]
			continue
		}
		// deterministic order
		sort.Slice(cases, func(i, j int) bool { return cases[i].pc.id < cases[j].pc.id })
		var merged []value
		for i := len(cases) - 1; i >= 0; i-- {
			c := cases[i]
			if merged == nil {
				merged = c.res
				continue
			}
			if len(c.res) != len(merged) {
				s.Bad = "result arity differs between paths"
				break
			}
			nm := make([]value, len(merged))
			for k := range merged {
				v, err := mergeValue(c.pc, c.res[k], merged[k])
				if err != "" {
					s.Bad = err
					break
				}
				nm[k] = v
			}
			merged = nm
		}
		s.Result = merged
	}
}

// mergeValue builds ite(c, a, b) over interpreter values of identical shape.
func mergeValue(c *Term, a, b value) (value, string) {
	switch a := a.(type) {
	case structure:
		bs, ok := b.(structure)
		if !ok || len(bs) != len(a) {
			return nil, "structure shape mismatch"
		}
		r := make(structure, len(a))
		for i := range a {
			v, err := mergeValue(c, a[i], bs[i])
			if err != "" {
				return nil, err
			}
			r[i] = v
		}
		return r, ""
	case *value:
		if bp, ok := b.(*value); ok && bp == a {
			return a, ""
		}
		return nil, "pointer results differ between paths"
	}
	if isScalar(a) && isScalar(b) {
		ta, tb := toTerm(a), toTerm(b)
		r := mkIte(c, ta, tb)
		return fromTermLike(a, r), ""
	}
	return nil, fmt.Sprintf("unsupported summary result type %T", a)
}

// apply instantiates the summary for actual arguments; ok=false if the actuals do
// not fit the formals.
func (s *Summary) apply(args []value) (value, bool) {
	if s.Bad != "" || s.Result == nil {
		return nil, false
	}
	sub := map[string]*Term{}
	bind := func(name string, actual *Term) bool {
		f, ok := s.Formals[name]
		if !ok {
			return true // formal unused on every path
		}
		if f.lo != nil && (actual.lo == nil || actual.lo.Cmp(f.lo) < 0) {
			return false
		}
		if f.hi != nil && (actual.hi == nil || actual.hi.Cmp(f.hi) > 0) {
			return false
		}
		sub[name] = actual
		return true
	}
	for i, a := range args {
		base := fmt.Sprintf("a%d", i)
		switch a := a.(type) {
		case structure: // time.Time {wall, ext, loc}
			if len(a) != 3 {
				return nil, false
			}
			if lp, ok := a[2].(*value); !ok || lp != nil {
				return nil, false
			}
			if !isScalar(a[0]) || !isScalar(a[1]) {
				return nil, false
			}
			if !bind(base+".nsec", toTerm(a[0])) {
				return nil, false
			}
			if !bind(base+".sec", mkAdd(toTerm(a[1]), mkConstI(-unixToInternal))) {
				return nil, false
			}
		default:
			if !isScalar(a) {
				return nil, false
			}
			if !bind(base, toTerm(a)) {
				return nil, false
			}
		}
	}
	memo := map[*Term]*Term{}
	var inst func(v value) value
	inst = func(v value) value {
		switch v := v.(type) {
		case structure:
			r := make(structure, len(v))
			for i := range v {
				r[i] = inst(v[i])
			}
			return r
		case *Term:
			return simplifyValue(substTerm(v, sub, memo))
		}
		return v
	}
	var out value
	if len(s.Result) == 1 {
		out = inst(s.Result[0])
	} else {
		t := make(tuple, len(s.Result))
		for i := range s.Result {
			t[i] = inst(s.Result[i])
		}
		out = t
	}
	return out, true
}

var _ = big.NewInt

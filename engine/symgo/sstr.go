package symgo

// String-like values with symbolic content:
//   sstr  - fixed length, per-byte concrete (uint8) or symbolic (*Term in [0,255])
//   sdate - the HTTP-date (IMF-fixdate) rendering of a symbolic instant (whole seconds)
//   snum  - the decimal rendering of a symbolic integer (strconv.Itoa / FormatInt)
// sdate and snum are "typed opaque strings" (DESIGN.md §4.2): only emptiness tests,
// equality and the matching parser intercepts are supported on them.

import (
	"fmt"
	"go/types"
	"math/big"
	"net/http"
	"strconv"
	"strings"
	"time"
)

type sstr struct{ b []value }

type sdate struct {
	sec   *Term
	valid *Term // nil = always valid; else the string is "0" when !valid
}

type snum struct{ n *Term }

var (
	byteLo = bigZero
	byteHi = bi(255)
)

func isStringLike(v value) bool {
	switch v.(type) {
	case string, sstr, sdate, snum, shash:
		return true
	}
	return false
}

// mkSstr normalises: all-concrete byte sequences become Go strings.
func mkSstr(b []value) value {
	allc := true
	for _, x := range b {
		if _, ok := x.(uint8); !ok {
			allc = false
			break
		}
	}
	if allc {
		bs := make([]byte, len(b))
		for i, x := range b {
			bs[i] = x.(uint8)
		}
		return string(bs)
	}
	return sstr{b}
}

func strBytes(v value) []value {
	switch s := v.(type) {
	case string:
		r := make([]value, len(s))
		for i := 0; i < len(s); i++ {
			r[i] = s[i]
		}
		return r
	case sstr:
		return s.b
	}
	abort("byte access to opaque string %T", v)
	return nil
}

func strLen(v value) int {
	switch s := v.(type) {
	case string:
		return len(s)
	case sstr:
		return len(s.b)
	case sdate:
		if s.valid == nil {
			return len(http.TimeFormat)
		}
	}
	abort("len of opaque string %T", v)
	return 0
}

func strConcat(x, y value) value {
	if h, ok := y.(shash); ok {
		return shash{prefix: strConcat(x, h.prefix), stream: h.stream}
	}
	if xs, ok := x.(string); ok {
		if ys, ok := y.(string); ok {
			return xs + ys
		}
		if xs == "" {
			return y
		}
	}
	if ys, ok := y.(string); ok && ys == "" {
		return x
	}
	bx, by := strBytes(x), strBytes(y)
	r := make([]value, 0, len(bx)+len(by))
	r = append(append(r, bx...), by...)
	return mkSstr(r)
}

func byteEq(a, b value) *Term {
	ca, aok := a.(uint8)
	cb, bok := b.(uint8)
	if aok && bok {
		return mkBool(ca == cb)
	}
	return mkEq(toTerm(a), toTerm(b))
}

// strEq returns bool or *Term.
func strEq(x, y value) value {
	if xs, ok := x.(string); ok {
		if ys, ok := y.(string); ok {
			return xs == ys
		}
	}
	if a, ok := x.(shash); ok {
		switch b := y.(type) {
		case shash:
			pe := strEq(a.prefix, b.prefix)
			var pt *Term
			switch p := pe.(type) {
			case bool:
				pt = mkBool(p)
			case *Term:
				pt = p
			}
			return simplifyBool(mkAnd(pt, streamEq(a.stream, b.stream)))
		case string, sstr:
			// a concrete decimal string never equals the rendering of a symbolic-stream
			// hash (no collision with the "0" of the no-Vary id: assumption)
			return false
		}
		abort("comparison of hash string with %T", y)
	}
	if _, ok := y.(shash); ok {
		return strEq(y, x)
	}
	switch a := x.(type) {
	case sdate:
		if a.valid != nil {
			if b, ok := y.(string); ok && b == "" {
				return false
			}
			abort("comparison of optional HTTP-date string")
		}
		switch b := y.(type) {
		case sdate:
			if b.valid != nil {
				abort("comparison of optional HTTP-date string")
			}
			return simplifyBool(mkEq(a.sec, b.sec))
		case string:
			if t, err := time.Parse(http.TimeFormat, b); err == nil && t.Format(http.TimeFormat) == b {
				return simplifyBool(mkEq(a.sec, mkConstI(t.Unix())))
			}
			return false
		}
		abort("comparison of HTTP-date string with %T", y)
	case snum:
		switch b := y.(type) {
		case snum:
			return simplifyBool(mkEq(a.n, b.n))
		case string:
			if n, ok := new(big.Int).SetString(b, 10); ok && n.String() == b {
				return simplifyBool(mkEq(a.n, mkConst(n)))
			}
			return false
		}
		abort("comparison of decimal string with %T", y)
	}
	switch y.(type) {
	case sdate, snum:
		return strEq(y, x)
	}
	bx, by := strBytes(x), strBytes(y)
	if len(bx) != len(by) {
		return false
	}
	r := tTrue
	for i := range bx {
		r = mkAnd(r, byteEq(bx[i], by[i]))
		if b, ok := r.constBool(); ok && !b {
			return false
		}
	}
	return simplifyBool(r)
}

func simplifyBool(t *Term) value {
	if b, ok := t.constBool(); ok {
		return b
	}
	return t
}

// strLess returns bool or *Term for x < y (lexicographic byte order).
func strLess(x, y value) value {
	if xs, ok := x.(string); ok {
		if ys, ok := y.(string); ok {
			return xs < ys
		}
	}
	bx, by := strBytes(x), strBytes(y)
	n := min(len(bx), len(by))
	r := mkBool(len(bx) < len(by))
	for i := n - 1; i >= 0; i-- {
		a, b := toTerm(bx[i]), toTerm(by[i])
		r = mkIte(mkLt(a, b), tTrue, mkIte(mkLt(b, a), tFalse, r))
	}
	return simplifyBool(r)
}

func strSlice(v value, lo, hi int) value {
	switch s := v.(type) {
	case string:
		return s[lo:hi]
	case sstr:
		return mkSstr(s.b[lo:hi:hi])
	case sdate:
		if s.valid == nil && lo == 0 && hi == len(http.TimeFormat) {
			return s
		}
	}
	abort("slice of opaque string %T", v)
	return nil
}

func strIndex(v value, i int) value {
	switch s := v.(type) {
	case string:
		return s[i]
	case sstr:
		return s.b[i]
	}
	abort("index of opaque string %T", v)
	return nil
}

// concreteString extracts a Go string or aborts.
func concreteString(v value, what string) string {
	switch s := v.(type) {
	case string:
		return s
	case sstr:
		if c, ok := mkSstr(s.b).(string); ok {
			return c
		}
	}
	abort("%s needs a concrete string, got %T", what, v)
	return ""
}

func describeString(v value) string {
	switch s := v.(type) {
	case string:
		return strconv.Quote(s)
	case sstr:
		var sb strings.Builder
		sb.WriteString("sym\"")
		for _, b := range s.b {
			if c, ok := b.(uint8); ok {
				sb.WriteByte(c)
			} else {
				sb.WriteByte('?')
			}
		}
		sb.WriteString("\"")
		return sb.String()
	case sdate:
		return "httpdate(" + s.sec.String() + ")"
	case snum:
		return "decimal(" + s.n.String() + ")"
	case shash:
		return describeString(s.prefix) + "+hash(" + describeString(mkSstr(s.stream)) + ")"
	}
	return fmt.Sprintf("%T", v)
}

// equalsV is the symbolic-aware variant of equals: returns bool or *Term.
func equalsV(t types.Type, x, y value) value {
	if isStringLike(x) && isStringLike(y) {
		return strEq(x, y)
	}
	_, xs := x.(*Term)
	_, ys := y.(*Term)
	if xs || ys {
		if isScalar(x) && isScalar(y) {
			return simplifyBool(mkEq(toTerm(x), toTerm(y)))
		}
		abort("comparison of symbolic scalar with %T / %T", x, y)
	}
	switch x := x.(type) {
	case structure:
		y := y.(structure)
		tStruct := t.Underlying().(*types.Struct)
		r := tTrue
		for i, n := 0, tStruct.NumFields(); i < n; i++ {
			if f := tStruct.Field(i); f.Name() != "_" {
				switch e := equalsV(f.Type(), x[i], y[i]).(type) {
				case bool:
					if !e {
						return false
					}
				case *Term:
					r = mkAnd(r, e)
				}
			}
		}
		return simplifyBool(r)
	case array:
		y := y.(array)
		tElt := t.Underlying().(*types.Array).Elem()
		r := tTrue
		for i := range x {
			switch e := equalsV(tElt, x[i], y[i]).(type) {
			case bool:
				if !e {
					return false
				}
			case *Term:
				r = mkAnd(r, e)
			}
		}
		return simplifyBool(r)
	case iface:
		y := y.(iface)
		if !sameType(x.t, y.t) {
			return false
		}
		if x.t == nil {
			return true
		}
		return equalsV(x.t, x.v, y.v)
	}
	return equals(t, x, y)
}

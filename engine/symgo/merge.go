package symgo

// Function-level path merging.  A function the harness lists in vxMergeable is
// executed under a nested exploration: all of its feasible paths (under the current
// path condition) are run one after the other from the same entry state, and their
// results are merged into ite-terms, so the caller continues on ONE path instead of
// one per callee path.  Results of different shape (e.g. strings of different
// length, or a panic) cannot be merged; the outer path then forks once per shape.
//
// Soundness condition (stated in DESIGN.md): a mergeable function does not write to
// heap objects that existed before the call.  The listed functions are parsers and
// accessors; the condition is checked by review, not by the engine.

import (
	"sort"
	"os"
	"fmt"
	"math/big"
)

type mergeCtx struct {
	prefix  []int
	pos     int
	pending []pendingPath
	assumed bool // an assumption was made inside: the cases need not be exhaustive
}

type mergeCase struct {
	dec   []int // truth values of the decisions taken inside the call (program order)
	pc    *Term
	res   value
	panic interface{}
	seq   map[string]int
}

func sameSeq(a, b map[string]int) bool {
	if len(a) != len(b) {
		return false
	}
	for k, v := range a {
		if b[k] != v {
			return false
		}
	}
	return true
}

type entryState struct {
	pcLen, pcsLen int
	model         Model
	known         map[string]*Term
	notEq         map[string][]*big.Int
	nfresh        int
	seq           map[string]int
}

func (p *pathState) snapshot() entryState {
	k := make(map[string]*Term, len(p.known))
	for a, b := range p.known {
		k[a] = b
	}
	n := make(map[string][]*big.Int, len(p.notEq))
	for a, b := range p.notEq {
		n[a] = b[:len(b):len(b)]
	}
	sq := make(map[string]int, len(p.seq))
	for a, b := range p.seq {
		sq[a] = b
	}
	return entryState{len(p.pc), len(p.pcs), p.model, k, n, p.nfresh, sq}
}

func (p *pathState) restore(s entryState) {
	p.pc = p.pc[:s.pcLen]
	p.pcs = p.pcs[:s.pcsLen]
	p.model = s.model
	p.known = make(map[string]*Term, len(s.known))
	for a, b := range s.known {
		p.known[a] = b
	}
	p.notEq = make(map[string][]*big.Int, len(s.notEq))
	for a, b := range s.notEq {
		p.notEq[a] = b
	}
	p.nfresh = s.nfresh
	p.seq = make(map[string]int, len(s.seq))
	for a, b := range s.seq {
		p.seq[a] = b
	}
}

// callMerged runs fn(args) over all its feasible paths and merges the results.
func (i *interpreter) callMerged(run func() value) value {
	p := i.p
	entry := p.snapshot()
	outer := p.ctx
	maxFresh := p.nfresh
	var cases []mergeCase
	assumed := false
	maxSeq := map[string]int{}
	work := []pendingPath{{nil, entry.model}}
	for len(work) > 0 {
		item := work[len(work)-1]
		work = work[:len(work)-1]
		p.restore(entry)
		if item.model != nil {
			p.model = item.model
		}
		ctx := &mergeCtx{prefix: item.prefix}
		p.ctx = ctx
		var c mergeCase
		ok := true
		func() {
			defer func() {
				if r := recover(); r != nil {
					switch r := r.(type) {
					case pathEnd:
						ok = false
					case targetPanic, runtimeError:
						c.panic = r
					default:
						p.ctx = outer
						panic(r)
					}
				}
			}()
			c.res = run()
		}()
		p.ctx = outer
		if ctx.assumed {
			assumed = true
		}
		if p.nfresh > maxFresh {
			maxFresh = p.nfresh
		}
		for a, b := range p.seq {
			if b > maxSeq[a] {
				maxSeq[a] = b
			}
		}
		work = append(work, ctx.pending...)
		if !ok {
			continue
		}
		pc := tTrue
		for _, t := range p.pc[entry.pcLen:] {
			pc = mkAnd(pc, t)
		}
		c.pc = pc
		c.dec = append([]int(nil), ctx.prefix[:ctx.pos]...)
		c.seq = make(map[string]int, len(p.seq))
		for a, b := range p.seq {
			c.seq[a] = b
		}
		cases = append(cases, c)
		if len(cases) > 512 {
			abort("mergeable function has more than 512 paths")
		}
	}
	p.restore(entry)
	p.nfresh = maxFresh
	if len(cases) == 0 {
		panic(pathEnd{})
	}
	if assumed {
		// assumptions made inside the call restrict the outer path as well
		any := tFalse
		for _, c := range cases {
			any = mkOr(any, c.pc)
		}
		if outer != nil {
			outer.assumed = true
		}
		p.assume(any)
	}
	// The order in which the cases were found depends on the path's current model; the
	// decisions below are replayed positionally when the path prefix is re-executed, so
	// the order must not: sort by path condition.
	// (truth values of the callee's decisions in program order, "true" first - this does
	// not depend on the model, and keeps the merged terms in the program's own order)
	sort.SliceStable(cases, func(a, b int) bool {
		x, y := cases[a].dec, cases[b].dec
		for k := 0; k < len(x) && k < len(y); k++ {
			if x[k] != y[k] {
				return x[k] > y[k]
			}
		}
		if len(x) != len(y) {
			return len(x) < len(y)
		}
		return cases[a].pc.String() < cases[b].pc.String()
	})
	// group by shape
	type group struct {
		pc    *Term
		res   value
		panic interface{}
		seq   map[string]int
	}
	var groups []*group
	for _, c := range cases {
		placed := false
		if c.panic == nil {
			for _, g := range groups {
				if g.panic != nil || !sameSeq(g.seq, c.seq) {
					continue // different number of stub readings: a different shape
				}
				if m, ok := mergeShape(c.pc, c.res, g.res); ok {
					g.res = m
					g.pc = mkOr(g.pc, c.pc)
					placed = true
					break
				}
			}
		}
		if !placed {
			groups = append(groups, &group{pc: c.pc, res: c.res, panic: c.panic, seq: c.seq})
		}
	}
	if os.Getenv("VX_MERGEDBG") != "" {
		fmt.Fprintf(os.Stderr, "MERGE cases=%d groups=%d\n", len(cases), len(groups))
		for _, c := range cases {
			fmt.Fprintf(os.Stderr, "  case pc=%s res=%s panic=%v\n", c.pc.String(), toString(c.res), c.panic)
		}
	}
	var chosen *group
	if len(groups) == 1 {
		chosen = groups[0]
	} else {
		for k, g := range groups {
			if k == len(groups)-1 || p.branch(g.pc) {
				chosen = g
				break
			}
		}
	}
	for a, b := range chosen.seq {
		p.seq[a] = b
	}
	if chosen.panic != nil {
		panic(chosen.panic)
	}
	return chosen.res
}

// mergeShape returns ite(c, a, b) if a and b have the same shape.
func mergeShape(c *Term, a, b value) (value, bool) {
	switch x := a.(type) {
	case nil:
		return nil, b == nil
	case tuple:
		y, ok := b.(tuple)
		if !ok || len(x) != len(y) {
			return nil, false
		}
		r := make(tuple, len(x))
		for k := range x {
			m, ok := mergeShape(c, x[k], y[k])
			if !ok {
				return nil, false
			}
			r[k] = m
		}
		return r, true
	case structure:
		y, ok := b.(structure)
		if !ok || len(x) != len(y) {
			return nil, false
		}
		r := make(structure, len(x))
		for k := range x {
			m, ok := mergeShape(c, x[k], y[k])
			if !ok {
				return nil, false
			}
			r[k] = m
		}
		return r, true
	case string, sstr:
		if !isStringLike(b) {
			return nil, false
		}
		switch b.(type) {
		case string, sstr:
		default:
			return nil, false
		}
		if xs, ok := a.(string); ok {
			if ys, ok := b.(string); ok && xs == ys {
				return a, true
			}
		}
		bx, by := strBytes(a), strBytes(b)
		if len(bx) != len(by) {
			return nil, false
		}
		r := make([]value, len(bx))
		for k := range bx {
			t := mkIte(c, toTerm(bx[k]), toTerm(by[k]))
			if t.op == OpConst {
				r[k] = uint8(t.c.Uint64())
			} else {
				r[k] = t
			}
		}
		return mkSstr(r), true
	case iface:
		y, ok := b.(iface)
		if !ok || !sameType(x.t, y.t) {
			return nil, false
		}
		if x.t == nil {
			return a, true
		}
		m, ok := mergeShape(c, x.v, y.v)
		if !ok {
			return nil, false
		}
		return iface{x.t, m}, true
	case *value:
		y, ok := b.(*value)
		if !ok {
			return nil, false
		}
		if x == y {
			return a, true
		}
		if x == nil || y == nil {
			return nil, false
		}
		// two distinct objects: merge the pointees into a fresh cell (sound when both
		// were allocated inside the merged call, which mergeable functions guarantee)
		m, ok := mergeShape(c, *x, *y)
		if !ok {
			return nil, false
		}
		cell := m
		return &cell, true
	}
	if isScalar(a) && isScalar(b) {
		ta, tb := toTerm(a), toTerm(b)
		if ta.isBool != tb.isBool {
			return nil, false
		}
		return fromTermLike(firstConcrete(a, b), mkIte(c, ta, tb)), true
	}
	return nil, false
}

var _ = fmt.Sprintf
